"""Static table of memoisation sites in the package (C11, C03, C12, C16): every place where a result is kept across calls.

A *site* is one of
  * a decorator `lru_cache` / `cache` / `cached_property` (kind 'decorator', key = the decorated function's parameters);
  * the lookup-or-compute idiom inside a function: a membership test `K in D` / `K not in D` (or `D.get(K)`) together with a store
    `D[K'] = …` on the same container `D`, where `D` outlives the call (it is not created as a fresh dict/list literal in that function):
    kind 'dict', key = the source text of `K`;
  * a parameter whose default is a mutable literal (`{}`, `[]`) and which the body writes to: kind 'mutable-default';
  * a class-level mutable attribute (dict/list literal in the class body) that a method aliases without copying or mutates in place: kind 'class-state';
  * a method assigning to an attribute of its own class (`self.__class__.X = …`): kind 'class-attr-assign';
  * a lazily computed attribute (`if self.X is None: self.X = …; return self.X`): kind 'attribute-memo';
  * a container received as a parameter (typically `**kwargs`) that is written inside a `for`/`while` body: kind 'loop-carried';
  * a module-level mutable container mutated from inside a function (`NAME[…] = …`, `NAME.append/update/setdefault`): kind 'global-state'.
The key text is part of the table: changing what a cache is looked up with changes the table.
"""
import ast
import os


def _fresh_locals(fn):
    fresh = set()
    for n in ast.walk(fn):
        if isinstance(n, ast.Assign) and len(n.targets) == 1 and isinstance(n.targets[0], ast.Name):
            v = n.value
            if isinstance(v, (ast.Dict, ast.List, ast.Set, ast.DictComp, ast.ListComp)) or \
                    (isinstance(v, ast.Call) and isinstance(v.func, ast.Name) and v.func.id in ('dict', 'list', 'set', 'OrderedDict', 'defaultdict')):
                fresh.add(n.targets[0].id)
    return fresh


def scan_module(path, rel):
    try:
        tree = ast.parse(open(path).read())
    except SyntaxError:
        return []
    sites = []
    module_containers = set()
    for n in tree.body:
        if isinstance(n, ast.Assign) and len(n.targets) == 1 and isinstance(n.targets[0], ast.Name):
            v = n.value
            if isinstance(v, (ast.Dict, ast.List, ast.Set)) and not getattr(v, 'keys', None) and not getattr(v, 'elts', None):
                module_containers.add(n.targets[0].id)          # empty literal at module level: a container to be filled at run time
            elif isinstance(v, ast.Call) and isinstance(v.func, ast.Name) and v.func.id in ('dict', 'list', 'set') and not v.args and not v.keywords:
                module_containers.add(n.targets[0].id)
    # class-level mutable attributes that methods alias (`self.x = self.NAME`, no copy) or mutate in place: one object for all the instances
    MUT = ('append', 'update', 'setdefault', 'add', 'extend', 'pop', 'clear', 'insert', 'remove', 'sort')
    for cls in [n for n in ast.walk(tree) if isinstance(n, ast.ClassDef)]:
        names = set()
        for n in cls.body:
            if isinstance(n, ast.Assign) and len(n.targets) == 1 and isinstance(n.targets[0], ast.Name):
                v = n.value
                if isinstance(v, (ast.Dict, ast.List, ast.Set)) or (isinstance(v, ast.Call) and isinstance(v.func, ast.Name) and v.func.id in ('dict', 'list', 'set')):
                    names.add(n.targets[0].id)
        if not names:
            continue
        def is_cls_attr(x):
            return isinstance(x, ast.Attribute) and x.attr in names and isinstance(x.value, ast.Name) and x.value.id in ('self', 'cls', cls.name)
        for m in [n for n in ast.walk(cls) if isinstance(n, (ast.FunctionDef, ast.AsyncFunctionDef))]:
            for n in ast.walk(m):
                if isinstance(n, ast.Assign) and is_cls_attr(n.value):
                    sites.append((rel, '%s.%s' % (cls.name, m.name), 'class-state', n.value.attr, 'aliased as ' + ast.unparse(n.targets[0])))
                if isinstance(n, (ast.Assign, ast.AugAssign)):
                    for t in (n.targets if isinstance(n, ast.Assign) else [n.target]):
                        if isinstance(t, ast.Subscript) and is_cls_attr(t.value):
                            sites.append((rel, '%s.%s' % (cls.name, m.name), 'class-state', t.value.attr, 'item store'))
                        if isinstance(n, ast.AugAssign) and is_cls_attr(t):
                            sites.append((rel, '%s.%s' % (cls.name, m.name), 'class-state', t.attr, 'augmented in place'))
                if isinstance(n, ast.Call) and isinstance(n.func, ast.Attribute) and n.func.attr in MUT and is_cls_attr(n.func.value):
                    sites.append((rel, '%s.%s' % (cls.name, m.name), 'class-state', n.func.value.attr, n.func.attr))
    # a method that assigns to an attribute of the class itself (`self.__class__.X = …`, `type(self).X = …`, `cls.X = …`): set once, seen by all
    for cls in [n for n in ast.walk(tree) if isinstance(n, ast.ClassDef)]:
        for m in [n for n in ast.walk(cls) if isinstance(n, (ast.FunctionDef, ast.AsyncFunctionDef))]:
            for n in ast.walk(m):
                if isinstance(n, (ast.Assign, ast.AugAssign)):
                    for t in (n.targets if isinstance(n, ast.Assign) else [n.target]):
                        if isinstance(t, ast.Attribute) and ast.unparse(t.value) in ('self.__class__', 'type(self)', 'cls', cls.name):
                            sites.append((rel, '%s.%s' % (cls.name, m.name), 'class-attr-assign', t.attr, ast.unparse(t.value)))
    for fn in [n for n in ast.walk(tree) if isinstance(n, (ast.FunctionDef, ast.AsyncFunctionDef))]:
        for d in fn.decorator_list:
            txt = ast.unparse(d)
            base = txt.split('(')[0].split('.')[-1]
            if base in ('lru_cache', 'cache', 'cached_property', 'memoize', 'memoized'):
                sites.append((rel, fn.name, 'decorator', txt, ','.join(a.arg for a in fn.args.args)))
        # a mutable default argument written in the body: the default object is shared by all the calls
        pos = fn.args.args[len(fn.args.args) - len(fn.args.defaults):] if fn.args.defaults else []
        for a_, d_ in list(zip(pos, fn.args.defaults)) + [(a2, d2) for a2, d2 in zip(fn.args.kwonlyargs, fn.args.kw_defaults) if d2 is not None]:
            if isinstance(d_, (ast.Dict, ast.List, ast.Set)) or (isinstance(d_, ast.Call) and isinstance(d_.func, ast.Name) and d_.func.id in ('dict', 'list', 'set')):
                written = False
                for n in ast.walk(fn):
                    if isinstance(n, (ast.Assign, ast.AugAssign)):
                        for t in (n.targets if isinstance(n, ast.Assign) else [n.target]):
                            if isinstance(t, ast.Subscript) and isinstance(t.value, ast.Name) and t.value.id == a_.arg:
                                written = True
                    if isinstance(n, ast.Call) and isinstance(n.func, ast.Attribute) and isinstance(n.func.value, ast.Name) and n.func.value.id == a_.arg \
                            and n.func.attr in ('append', 'update', 'setdefault', 'add', 'extend', 'pop', 'clear', 'insert', 'remove'):
                        written = True
                if written:
                    sites.append((rel, fn.name, 'mutable-default', a_.arg, ast.unparse(d_)))
        # lazily computed attribute: `if self.X is None: self.X = …` … `return self.X` — the value computed at the first call is served by all the later ones
        for n in ast.walk(fn):
            if isinstance(n, ast.If) and isinstance(n.test, ast.Compare) and len(n.test.ops) == 1 and isinstance(n.test.ops[0], ast.Is) \
                    and isinstance(n.test.comparators[0], ast.Constant) and n.test.comparators[0].value is None \
                    and isinstance(n.test.left, ast.Attribute) and isinstance(n.test.left.value, ast.Name) and n.test.left.value.id == 'self':
                attr = ast.unparse(n.test.left)
                assigned = any(isinstance(b, ast.Assign) and any(ast.unparse(t) == attr for t in b.targets) for b in ast.walk(n))
                returned = any(isinstance(r, ast.Return) and r.value is not None and ast.unparse(r.value) == attr for r in ast.walk(fn))
                if assigned and returned:
                    sites.append((rel, fn.name, 'attribute-memo', attr, ''))
        fresh = _fresh_locals(fn)
        tests, stores = {}, {}
        for n in ast.walk(fn):
            if isinstance(n, ast.Compare) and len(n.ops) == 1 and isinstance(n.ops[0], (ast.In, ast.NotIn)):
                tests.setdefault(ast.unparse(n.comparators[0]), []).append(ast.unparse(n.left))
            if isinstance(n, ast.Call) and isinstance(n.func, ast.Attribute) and n.func.attr == 'get' and n.args:
                tests.setdefault(ast.unparse(n.func.value), []).append(ast.unparse(n.args[0]))
            if isinstance(n, (ast.Assign, ast.AugAssign)):
                for t in (n.targets if isinstance(n, ast.Assign) else [n.target]):
                    if isinstance(t, ast.Subscript):
                        stores.setdefault(ast.unparse(t.value), []).append(ast.unparse(t.slice))
            if isinstance(n, ast.Call) and isinstance(n.func, ast.Attribute) and n.func.attr in ('append', 'update', 'setdefault', 'add', 'extend') \
                    and isinstance(n.func.value, ast.Name) and n.func.value.id in module_containers:
                sites.append((rel, fn.name, 'global-state', n.func.value.id, n.func.attr))
        params = {a.arg for a in fn.args.args + fn.args.kwonlyargs} | ({fn.args.kwarg.arg} if fn.args.kwarg else set()) | ({fn.args.vararg.arg} if fn.args.vararg else set())
        # options or containers handed in by the caller and written inside a loop: the value written for one item is seen by the next
        for loop in [n for n in ast.walk(fn) if isinstance(n, (ast.For, ast.While))]:
            for n in ast.walk(loop):
                if isinstance(n, (ast.Assign, ast.AugAssign)):
                    for t in (n.targets if isinstance(n, ast.Assign) else [n.target]):
                        if isinstance(t, ast.Subscript) and isinstance(t.value, ast.Name) and t.value.id in params and t.value.id != 'self':
                            sites.append((rel, fn.name, 'loop-carried', t.value.id, ast.unparse(t.slice)))
        for cont in sorted(set(tests) & set(stores)):
            root = cont.split('.')[0].split('[')[0]
            if root in fresh and '.' not in cont:
                continue                                        # a dict built and used inside one call
            if cont in ('self', 'kwargs') or cont in params:
                continue                                        # option handling / dict-like self: not a memo (loops are handled above)
            for k in sorted(set(tests[cont])):
                # a key that is a plain variable is recorded with the expressions it is assigned from in this function
                defs = sorted({ast.unparse(n.value) for n in ast.walk(fn) if isinstance(n, ast.Assign) and any(isinstance(t, ast.Name) and t.id == k for t in n.targets)})
                sites.append((rel, fn.name, 'dict', cont, k + (' := ' + ' | '.join(defs) if defs else '')))
        for cont in sorted(stores):
            if cont in module_containers and cont not in tests:
                sites.append((rel, fn.name, 'global-state', cont, 'store'))
    return sites


def table(repo):
    root = os.path.join(repo, 'ixpeobssim')
    sites = []
    for dp, dn, fns in sorted(os.walk(root)):
        dn[:] = sorted(x for x in dn if x not in ('test', 'tests', 'docs', '__pycache__', 'sandbox'))
        for f in sorted(fns):
            if f.endswith('.py'):
                p = os.path.join(dp, f)
                sites += scan_module(p, os.path.relpath(p, repo))
    return sorted(set(sites))


def lean_table(repo):
    def lstr(x):
        return '[%s]' % ', '.join(str(ord(c)) for c in x)
    sites = table(repo)
    out = ['/-! Generated by translator/cachesites.py from the /repo working tree: every memoisation / carried-state site of the package (see the module docstring) — do not edit. -/',
           'namespace Gen', '', '/-- (file, function, kind, container, key) -/',
           'def cacheSites : List (List Nat × List Nat × List Nat × List Nat × List Nat) := [']
    for i, site in enumerate(sites):
        out.append('  (%s)%s  -- %s' % (', '.join(lstr(x) for x in site), ',' if i < len(sites) - 1 else '', ' | '.join(site).replace('\n', ' ')[:150]))
    out += [']', '', 'end Gen', '']
    return '\n'.join(out), sites


if __name__ == '__main__':
    import sys
    for s in table(sys.argv[1] if len(sys.argv) > 1 else '/repo'):
        print(s)
