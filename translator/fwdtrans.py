"""Call-forwarding translator (T-tie for the *glue* of the response loaders, C12): functions whose body hands its arguments on to another function
— positionally, by keyword, through a tuple built first and expanded with `*`, with defaults filled in by the callee's signature — become Lean
definitions in which every call is resolved against the signature of the callee as Python does (`Gen/Loaders.lean`).

  irf.caldb.irf_file_path          -> the file name `irf_file_name` composes for (base, intent, version) = `parse_irf_name(irf_name)`
  irf._load_irf_base               -> the file the object is built from (and cached under)
  irf.load_arf / load_mrf / load_vign / load_psf / load_modf / load_rmf
  irf.xIRFSet.__init__ / load_irf_set   -> the six members

A loaded response object is represented by the file name it is built from (an `Except Nat (List Nat)`: `throw k` of the name composition is passed on).
Parameters that do not take part in the choice of the file are *opaque* (the class, the CALDB root, the cache switch, the existence check): they are
dropped after checking that they are forwarded to a parameter that is opaque too.  The IRF name is the triple `parse_irf_name` returns.

Subset: `return f(args)`, `x = f(args)`, `x = a, b, c` (a tuple of names), `self.x = f(args)`, `if x is None: x = CONST` on an opaque name,
`if <opaque>: <statement without effect on the result>`, the legacy-name hook of `_load_irf_base` (recorded: the name is assumed not to be a legacy
alias; the alias table is covered by `C12.legacy_wellformed`), the cache lookup / store keyed by the variable the object is built from (recorded; the
transparency of such a memo is `C11.keyed_by_input_transparent`).  Anything else raises Untranslatable.
"""
import ast
import inspect
import importlib
import textwrap

from py2lean import Untranslatable


def lstr(x):
    return '([%s] : List Nat)' % ', '.join(str(ord(c)) for c in x)


class FwdSpec:
    def __init__(self, module, qual, lean, params, kind='call', note=''):
        self.module, self.qual, self.lean = module, qual, lean
        self.params = list(params)      # the non-opaque parameters, in the order of the Lean definition: (python name, lean type)
        self.kind = kind                # 'call' (value = the resolved call), 'base' (_load_irf_base), 'path' (irf_file_path), 'set' (xIRFSet.__init__)
        self.note = note

    def obj(self):
        o = importlib.import_module(self.module)
        for part in self.qual.split('.'):
            o = getattr(o, part)
        return o


OPAQUE = {'cls', 'caldb_path', 'cache', 'check_file'}
NAME = 'irf_name'          # expands to the three Lean parameters (base, intent, version)
LEAN_P = {'irf_name': '(base intent : List Nat) (version : Nat)', 'du_id': '(du_id : Nat)', 'irf_type': '(irf_type : List Nat)',
          'simple_weighting': '(simple_weighting : Bool)', 'gray_filter': '(gray_filter : Bool)'}
LEAN_A = {'irf_name': 'base intent version'}


class Fwd:
    def __init__(self, spec, table):
        self.spec = spec
        self.table = table        # python callable name -> FwdSpec
        self.notes = []

    def val(self, n, env):
        """a value handed on: a parameter name, a constant, or opaque"""
        if isinstance(n, ast.Name):
            if n.id in env:
                return env[n.id]
            if hasattr(importlib.import_module(self.spec.module), n.id):
                return ('opaque', n.id)          # a module-level object (a response class): may only reach an opaque parameter
            raise Untranslatable('unknown name %s' % n.id)
        if isinstance(n, ast.Constant):
            if isinstance(n.value, bool):
                return ('const', 'true' if n.value else 'false')
            if isinstance(n.value, str):
                return ('const', lstr(n.value))
            if n.value is None:
                return ('opaque', 'None')
        raise Untranslatable('argument %s' % ast.unparse(n)[:60])

    def resolve(self, call, env):
        """bind the arguments of a call to the parameters of the callee as Python does; returns the Lean application"""
        f = ast.unparse(call.func)
        if f not in self.table:
            raise Untranslatable('call of %s' % f)
        callee = self.table[f]
        sig = inspect.signature(callee.obj())
        pnames = [p for p in sig.parameters if p != 'self']
        pos = []
        for a in call.args:
            if isinstance(a, ast.Starred):
                t = env.get(a.value.id) if isinstance(a.value, ast.Name) else None
                if not (isinstance(t, tuple) and t[0] == 'tuple'):
                    raise Untranslatable('*%s' % ast.unparse(a.value))
                pos += list(t[1])
            else:
                pos.append(self.val(a, env))
        if len(pos) > len(pnames):
            raise Untranslatable('too many arguments for %s' % f)
        bound = dict(zip(pnames, pos))
        for k in call.keywords:
            if k.arg is None or k.arg in bound or k.arg not in pnames:
                raise Untranslatable('keyword %s of %s' % (k.arg, f))
            bound[k.arg] = self.val(k.value, env)
        for p in pnames:
            if p not in bound:
                d = sig.parameters[p].default
                if d is inspect.Parameter.empty:
                    raise Untranslatable('%s: missing argument %s' % (f, p))
                bound[p] = ('const', 'true' if d is True else 'false') if isinstance(d, bool) else (('opaque', repr(d)) if p in OPAQUE else ('default', p))
        args = []
        for p, _ in callee.params:
            v = bound[p]
            if v[0] == 'default':
                raise Untranslatable('%s: default of %s' % (f, p))
            if v[0] == 'opaque':
                raise Untranslatable('%s: an uninterpreted value reaches the parameter %s' % (f, p))
            args.append(v[1])
        for p in pnames:
            if p in OPAQUE and bound[p][0] not in ('opaque', 'const'):
                raise Untranslatable('%s: the opaque parameter %s receives %s' % (f, p, bound[p]))
            if p not in OPAQUE and p not in dict(callee.params):
                raise Untranslatable('%s: parameter %s is not modelled' % (f, p))
        return '(%s %s)' % (callee.lean, ' '.join(args))

    def function(self):
        sp = self.spec
        fn = ast.parse(textwrap.dedent(inspect.getsource(sp.obj()))).body[0]
        sig = inspect.signature(sp.obj())
        env = {}
        for p in sig.parameters:
            if p == 'self':
                continue
            if p in OPAQUE:
                env[p] = ('opaque', p)
            elif p in dict(sp.params):
                env[p] = ('param', LEAN_A.get(p, p))
            else:
                raise Untranslatable('parameter %s of %s is neither modelled nor opaque' % (p, sp.qual))
        members = []
        result = None
        built_from = None
        probe_key = None
        for s in fn.body:
            txt = ast.unparse(s)
            if isinstance(s, ast.Expr) and isinstance(s.value, ast.Constant):
                continue
            if isinstance(s, ast.Expr) and isinstance(s.value, ast.Call) and ast.unparse(s.value.func).startswith('logger.'):
                continue
            # an opaque parameter defaulted: if caldb_path is None: caldb_path = CONST
            if isinstance(s, ast.If) and isinstance(s.test, ast.Compare) and isinstance(s.test.left, ast.Name) and env.get(s.test.left.id, ('',))[0] == 'opaque' \
                    and all(isinstance(b, ast.Assign) and ast.unparse(b.targets[0]) == s.test.left.id for b in s.body) and not s.orelse:
                continue
            if sp.kind == 'base' and isinstance(s, ast.If) and 'LEGACY' in ast.unparse(s.test):
                self.notes.append('the hook for old-style names is not part of the definition (precondition: the name is not a legacy alias; table: C12.legacy_wellformed)')
                continue
            if sp.kind == 'base' and isinstance(s, ast.If) and ast.unparse(s.test).endswith(' in __CACHE') and not s.orelse:
                key = ast.unparse(s.test).split(' in ')[0]
                rets = [b for b in s.body if isinstance(b, ast.Return)]
                if env.get(key, ('',))[0] != 'value' or len(rets) != 1 or ast.unparse(rets[0].value) != '__CACHE[%s]' % key:
                    raise Untranslatable('cache probe %s' % txt[:60])
                probe_key = key
                continue
            if sp.kind == 'base' and isinstance(s, ast.If) and ast.unparse(s.test) == 'cache':
                if not all(ast.unparse(b).startswith('__CACHE[%s]' % built_from[0]) for b in s.body):
                    raise Untranslatable('cache store %s' % txt[:60])
                continue
            if sp.kind == 'path' and isinstance(s, ast.If) and ast.unparse(s.test) == 'check_file':
                continue
            if isinstance(s, ast.Assign) and len(s.targets) == 1:
                t, v = s.targets[0], s.value
                # args = a, b, c
                if isinstance(t, ast.Name) and isinstance(v, ast.Tuple) and all(isinstance(e, ast.Name) for e in v.elts):
                    env[t.id] = ('tuple', [self.val(e, env) for e in v.elts])
                    continue
                # base, intent, version = parse_irf_name(irf_name)
                if sp.kind == 'path' and isinstance(t, ast.Tuple) and ast.unparse(v) == 'parse_irf_name(irf_name)' and [e.id for e in t.elts] == ['base', 'intent', 'version']:
                    env.update(base=('param', 'base'), intent=('param', 'intent'), version=('param', 'version'))
                    self.notes.append('`parse_irf_name(irf_name)` is the triple the definition takes')
                    continue
                if sp.kind == 'path' and isinstance(t, ast.Name) and isinstance(v, ast.Call) and ast.unparse(v.func) == 'irf_folder_path':
                    env[t.id] = ('opaque', t.id)
                    continue
                if sp.kind == 'path' and isinstance(t, ast.Name) and isinstance(v, ast.Call) and ast.unparse(v.func) == 'irf_file_name':
                    names = [ast.unparse(a) for a in v.args]
                    if names != ['base', 'du_id', 'irf_type', 'intent', 'version', 'simple_weighting', 'gray_filter'] or v.keywords:
                        raise Untranslatable('irf_file_name called with %s' % names)
                    env[t.id] = ('value', '(Gen.Str.irf_file_name base du_id irf_type intent version simple_weighting gray_filter)')
                    continue
                if sp.kind == 'path' and isinstance(t, ast.Name) and ast.unparse(v).startswith('os.path.join(folder_path, '):
                    inner = v.args[1]
                    if not (isinstance(inner, ast.Name) and env.get(inner.id, ('',))[0] == 'value'):
                        raise Untranslatable('path %s' % txt[:60])
                    env[t.id] = env[inner.id]
                    continue
                if isinstance(v, ast.Call) and ast.unparse(v.func) in self.table:
                    r = self.resolve(v, env)
                    if isinstance(t, ast.Name):
                        env[t.id] = ('value', r)
                        continue
                    if isinstance(t, ast.Attribute) and ast.unparse(t.value) == 'self':
                        members.append((t.attr, r))
                        continue
                if isinstance(t, ast.Attribute) and ast.unparse(t.value) == 'self' and isinstance(v, ast.Name) and v.id in env and sp.kind == 'set':
                    continue        # self.irf_name = irf_name, self.du_id = du_id
                # irf = cls(file_path)
                if sp.kind == 'base' and isinstance(t, ast.Name) and isinstance(v, ast.Call) and ast.unparse(v.func) == 'cls' and len(v.args) == 1 \
                        and isinstance(v.args[0], ast.Name) and env.get(v.args[0].id, ('',))[0] == 'value':
                    built_from = (v.args[0].id, env[v.args[0].id][1])
                    if probe_key is not None and probe_key != built_from[0]:
                        raise Untranslatable('the cache is probed under %s, the object is built from %s' % (probe_key, built_from[0]))
                    self.notes.append('the cache is probed and filled under the path the object is built from (transparent: C11.keyed_by_input_transparent)')
                    env[t.id] = ('value', built_from[1])
                    continue
            if isinstance(s, ast.Return):
                if isinstance(s.value, ast.Call) and ast.unparse(s.value.func) in self.table:
                    result = self.resolve(s.value, env)
                    continue
                if isinstance(s.value, ast.Name) and env.get(s.value.id, ('',))[0] == 'value':
                    result = env[s.value.id][1]
                    continue
            raise Untranslatable('statement %s' % txt[:80])
        params = ' '.join(LEAN_P[p] for p, _ in sp.params)
        doc = '/-- `%s.%s`%s%s -/\n' % (sp.module, sp.qual, (' — ' + sp.note) if sp.note else '', ''.join('; ' + x for x in self.notes))
        if sp.kind == 'set':
            if result is not None or not members:
                raise Untranslatable('constructor of the set')
            fields = '\n'.join('  %s : Except Nat (List Nat)' % m for m, _ in members)
            body = '\n'.join('    %s := %s' % (m, r) for m, r in members)
            return ('/-- the members of `xIRFSet`, each represented by the file it is built from -/\nstructure IrfSet where\n%s\n\n' % fields) + doc + \
                'def %s %s : IrfSet :=\n  {\n%s }\n' % (sp.lean, params, body)
        if result is None:
            raise Untranslatable('no result')
        return doc + 'def %s %s : Except Nat (List Nat) :=\n  %s\n' % (sp.lean, params, result)


P_FULL = [('irf_name', 'N'), ('du_id', 'Nat'), ('simple_weighting', 'Bool'), ('gray_filter', 'Bool')]
P_PLAIN = [('irf_name', 'N'), ('du_id', 'Nat')]
SPECS = [
    FwdSpec('ixpeobssim.irf.caldb', 'irf_file_path', 'irf_file_path', [('irf_name', 'N'), ('du_id', 'Nat'), ('irf_type', 'S'), ('simple_weighting', 'Bool'), ('gray_filter', 'Bool')],
            kind='path', note='C12: the name of the file for an IRF name, detector unit, type and flags'),
    FwdSpec('ixpeobssim.irf', '_load_irf_base', 'load_irf_base', [('irf_type', 'S'), ('irf_name', 'N'), ('du_id', 'Nat'), ('simple_weighting', 'Bool'), ('gray_filter', 'Bool')],
            kind='base', note='C12: the file a response object is built from'),
    FwdSpec('ixpeobssim.irf', 'load_arf', 'load_arf', P_FULL), FwdSpec('ixpeobssim.irf', 'load_vign', 'load_vign', P_PLAIN),
    FwdSpec('ixpeobssim.irf', 'load_psf', 'load_psf', P_PLAIN), FwdSpec('ixpeobssim.irf', 'load_modf', 'load_modf', P_PLAIN),
    FwdSpec('ixpeobssim.irf', 'load_mrf', 'load_mrf', P_FULL), FwdSpec('ixpeobssim.irf', 'load_rmf', 'load_rmf', P_PLAIN),
    FwdSpec('ixpeobssim.irf', 'xIRFSet.__init__', 'irf_set', P_FULL, kind='set', note='C12: the six members of a response set'),
    FwdSpec('ixpeobssim.irf', 'load_irf_set', 'load_irf_set', P_FULL, kind='ctor'),
]
CALL_NAMES = {'irf_file_path': 'irf_file_path', '_load_irf_base': 'load_irf_base', 'load_arf': 'load_arf', 'load_vign': 'load_vign', 'load_psf': 'load_psf',
              'load_modf': 'load_modf', 'load_mrf': 'load_mrf', 'load_rmf': 'load_rmf', 'xIRFSet': 'irf_set'}


def lean_file(golden):
    out = ['import IxpeVerif.Gen.IrfNameGen', '/-! Generated by translator/fwdtrans.py from the /repo working tree — do not edit.',
           'The response loaders as what they ask the name composition for: every call resolved against the signature of the callee. -/',
           'set_option linter.unusedVariables false', '', 'namespace Gen.Fwd', '']
    by_lean = {sp.lean: sp for sp in SPECS}
    table = {py: by_lean[lean] for py, lean in CALL_NAMES.items()}
    status = {}
    for sp in SPECS:
        key = 'fwd:' + sp.lean
        try:
            tr = Fwd(sp, table)
            if sp.kind == 'ctor':
                # load_irf_set: `return xIRFSet(...)` — the constructor call resolved against __init__
                fn = ast.parse(textwrap.dedent(inspect.getsource(sp.obj()))).body[0]
                ret = [s for s in fn.body if isinstance(s, ast.Return)]
                others = [s for s in fn.body if not isinstance(s, ast.Return) and not (isinstance(s, ast.Expr) and isinstance(s.value, ast.Constant))]
                if len(ret) != 1 or others or not isinstance(ret[0].value, ast.Call):
                    raise Untranslatable('body of load_irf_set')
                sig = inspect.signature(sp.obj())
                env = {p: (('opaque', p) if p in OPAQUE else ('param', LEAN_A.get(p, p))) for p in sig.parameters}
                r = tr.resolve(ret[0].value, env)
                txt = '/-- `%s.%s` -/\ndef %s %s : IrfSet :=\n  %s\n' % (sp.module, sp.qual, sp.lean, ' '.join(LEAN_P[p] for p, _ in sp.params), r)
            else:
                txt = tr.function()
            status['fwd_' + sp.lean] = dict(tie='translated', differs_from_golden=golden.get(key) not in (None, txt), notes=tr.notes, qual=sp.qual, module=sp.module)
            golden[key] = txt
        except Exception as e:
            txt = golden.get(key)
            if txt is None:
                raise
            status['fwd_' + sp.lean] = dict(tie='correspondence-only', reason='%s: %s' % (type(e).__name__, e), qual=sp.qual, module=sp.module)
        out.append(txt)
    out += ['end Gen.Fwd', '']
    return '\n'.join(out), status


if __name__ == '__main__':
    import sys
    g = {}
    txt, st = lean_file(g)
    print(txt)
    print({k: v['tie'] for k, v in st.items()}, file=sys.stderr)
