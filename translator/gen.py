#!/venv/bin/python
"""Regenerate lean/IxpeVerif/Gen/*.lean from the /repo working tree (the T-tie).

usage: gen.py [--update-golden] [--check]
Writes Gen/Formulas.lean, Gen/Dispatch.lean, Gen/Tables.lean and translator/gen_status.json.
A file is only rewritten when its content changes (so that an unchanged tree is a no-op build).
"""
import os
import sys
import json
import importlib

HERE = os.path.dirname(os.path.abspath(__file__))
ROOT = os.path.dirname(HERE)
sys.path.insert(0, HERE)
from py2lean import Spec, Translator, Untranslatable, flit  # noqa

GEN = os.path.join(ROOT, 'lean', 'IxpeVerif', 'Gen')
GOLDEN = os.path.join(HERE, 'golden.json')

K = 'ixpeobssim.evt.kislat2015'
SPECS = [
    # --- C01 / C06: event-by-event Stokes parameters
    Spec(K, 'xStokesAnalysis.stokes_q', 'stokes_q', ['phi'], consts={'weights': None}),
    Spec(K, 'xStokesAnalysis.stokes_u', 'stokes_u', ['phi'], consts={'weights': None}),
    # the per-bin analysis of Kislat et al. (2015): the masked-array idiom read per element (one energy bin)
    Spec(K, 'xStokesAnalysis.calculate_polarization', 'calculate_polarization', ['I', 'Q', 'U', 'mu', 'W2'], bools=['degrees'], consts={'W2': 'NotNone'},
         elementwise=True, note='one energy bin: (PD, PD_ERR, PA, PA_ERR)'),
    Spec(K, 'xStokesAnalysis.calculate_stokes_errors', 'calculate_stokes_errors', ['I', 'Q', 'U', 'mu', 'W2'], elementwise=True, drop=['sig', '_mask'],
         note='one energy bin: (QN, UN, dI, dQ, dU, dQN, dUN, cov, pval, conf); SIGNIF goes through scipy and is projected away'),
    Spec(K, 'xStokesAnalysis.calculate_mdp99', 'calculate_mdp99', ['mu', 'I', 'W2'], bools=['clip'], elementwise=True),
    Spec(K, 'xStokesAnalysis.calculate_n_eff', 'calculate_n_eff', ['counts', 'I', 'W2'], elementwise=True, note='array path (counts is an array)'),
    Spec(K, 'xStokesAnalysis.calculate_n_eff', 'calculate_n_eff_scalar', ['counts', 'I', 'W2'], elementwise=True, consts={'__isinstance__': True},
         note='scalar path (counts is a Python number, as in polarization_table: FRAC_W = N_EFF / COUNTS whatever I)'),
    Spec('ixpeobssim.binning.base', 'xBinnedFileBase._weighted_average', 'weighted_average', [], bools=['invert_w2'],
         consts={'default': 0.}, abstract={'self.__data_dict': 'a', 'other.__data_dict': 'b'}, elementwise=True,
         note='one bin of the summation of two binned files: a, a_2 = value and weight of self; b, b_2 = value and weight of other'),
    Spec('ixpeobssim.binning.polarization', 'xBinnedPolarizationCube.__iadd__', 'pcube_iadd', [], elementwise=True,
         guards=['check_compat'], skip_calls=['recalculate_derived'],
         method_calls={'_weighted_average': ('weighted_average', lambda a: ['self.%s' % a[1].strip("'"), 'self.%s' % a[2].strip("'"),
                                                                          'other.%s' % a[1].strip("'"), 'other.%s' % a[2].strip("'"), 'false'])},
         note='one energy bin of the sum of two polarization cubes: (E_MEAN, MU, COUNTS, W2, I, Q, U) after the update; the derived columns are '
              'recomputed from these by calculate_stokes_errors / calculate_mdp99 / calculate_n_eff / calculate_polarization (generated above)'),
    Spec('ixpeobssim.binning.misc', 'xBinnedLightCurve.__iadd__', 'lc_iadd', [], elementwise=True, guards=['_check_iadd'],
         note='one time bin of the sum of two light curves: (COUNTS, EXPOSURE, ERROR) after the update'),
    Spec('ixpeobssim.binning.misc', 'xBinnedPulseProfile.__iadd__', 'pp_iadd', [], elementwise=True, guards=['_check_iadd'],
         note='one phase bin of the sum of two pulse profiles: (COUNTS, ERROR) after the update'),
    Spec('ixpeobssim.binning.polarization', 'xBinnedCountSpectrum.__iadd__', 'pha1_iadd', [], elementwise=True, guards=['_check_iadd'],
         note='one channel of the sum of two count spectra: (RATE, STAT_ERR) after the update'),
    Spec('ixpeobssim.binning.polarization', 'xBinnedMDPMapCube.__iadd__', 'mdpcube_iadd', [], elementwise=True, guards=['_check_iadd'],
         method_calls={'_weighted_average': ('weighted_average', lambda a: ['self.%s' % a[1].strip("'"), 'self.%s' % a[2].strip("'"),
                                                                          'other.%s' % a[1].strip("'"), 'other.%s' % a[2].strip("'"), 'false'])},
         note='one pixel of one energy layer of the sum of two MDP map cubes: (E_MEAN, COUNTS, MU, W2, I, MDP_99, N_EFF, FRAC_W) after the update'),
    Spec('ixpeobssim.evt.align', 'align_stokes_parameters', 'align_stokes_parameters', ['q', 'u', 'q0', 'u0']),
    Spec('ixpeobssim.evt.spurmrot', 'delta_phi_ampl', 'delta_phi_ampl', ['phi', 'amplitude', 'phase', 'harmonic']),
    Spec('ixpeobssim.evt.spurmrot', 'delta_phi_stokes', 'delta_phi_stokes', ['phi', 'qspur', 'uspur']),
    Spec('ixpeobssim.evt.spurmrot', 'correct_phi_stokes', 'correct_phi_stokes', ['phi', 'qspur', 'uspur']),
    Spec('ixpeobssim.evt.spurmrot', 'stokes_rotation_angle', 'stokes_rotation_angle', ['q', 'u', 'qspur', 'uspur']),
    Spec('ixpeobssim.evt.spurmrot', 'correct_stokes_parameters', 'correct_stokes_parameters', ['q', 'u', 'qspur', 'uspur']),
    Spec('ixpeobssim.utils.math_', 'modulo_2pi', 'modulo_2pi', ['phi']),
    Spec('ixpeobssim.utils.math_', 'fold_angle_rad', 'fold_angle_rad', ['phi']),
    Spec('ixpeobssim.utils.math_', 'fold_angle_deg', 'fold_angle_deg', ['phi']),
    # --- C06 / C14: detector geometry (the DU angle table look-up is a parameter, see Tables)
    Spec('ixpeobssim.instrument.du', 'du_rotation_angle', 'du_rotation_angle', ['roll_angle'],
         consts={'modulo': True, 'du_id': 'NotNone'}, abstract={'__DU_ROTATION_ANGLE': 'base'},
         note='`__DU_ROTATION_ANGLE[du_id]` is the parameter `base` (table in Gen/Tables.lean)'),
    Spec('ixpeobssim.instrument.gpd', 'rotate_detxy', 'rotate_detxy', ['x', 'y'], bools=['inverse'],
         abstract={'du_rotation_angle': 'rho'}, note='`du_rotation_angle(du_id, roll_angle)` is the parameter `rho`'),
    Spec('ixpeobssim.instrument.gpd', 'phi_to_detphi', 'phi_to_detphi', ['phi'], abstract={'du_rotation_angle': 'rho'}),
    Spec('ixpeobssim.instrument.gpd', 'detphi_to_phi', 'detphi_to_phi', ['detphi'], abstract={'du_rotation_angle': 'rho'}),
    Spec('ixpeobssim.instrument.gpd', 'within_fiducial_rectangle', 'within_fiducial_rectangle', ['x', 'y', 'half_side_x', 'half_side_y']),
    Spec('ixpeobssim.instrument.mma', '_sky_to_gpd_naive', 'sky_to_gpd_naive', ['ra', 'dec', 'ra_pnt', 'dec_pnt']),
    Spec('ixpeobssim.instrument.mma', '_gpd_to_sky_naive', 'gpd_to_sky_naive', ['detx', 'dety', 'ra_pnt', 'dec_pnt']),
    Spec('ixpeobssim.instrument.mma', 'sky_to_gpd', 'sky_to_gpd_dither', ['ra', 'dec', 'ra_pnt', 'dec_pnt'],
         consts={'dither_params': 'NotNone'},
         abstract={'_dithering_delta': ('delta_ra', 'delta_dec')},
         note='dithering on; `_dithering_delta(time, params)` is the parameter pair; the final DU rotation is `rotate_detxy` with `rho`'),
    Spec('ixpeobssim.instrument.mma', 'gpd_to_sky', 'gpd_to_sky_dither', ['detx', 'dety', 'ra_pnt', 'dec_pnt'],
         consts={'dither_params': 'NotNone'},
         abstract={'_dithering_delta': ('delta_ra', 'delta_dec')}),
    Spec('ixpeobssim.instrument.mma', 'apply_dithering', 'apply_dithering', ['ra_pnt', 'dec_pnt'],
         consts={'dither_params': 'NotNone'}, abstract={'_dithering_delta': ('delta_ra', 'delta_dec')}),
    Spec('ixpeobssim.irf.psf', 'xPointSpreadFunctionBase.smear', 'psf_smear', ['ra', 'dec'],
         abstract={'delta': ('delta_ra', 'delta_dec')}),
    # --- C20 / C01: model Stokes parameters and the azimuthal response
    Spec('ixpeobssim.core.stokes', 'xModelStokesParameters.q', 'model_q', ['polarization_degree', 'polarization_angle']),
    Spec('ixpeobssim.core.stokes', 'xModelStokesParameters.u', 'model_u', ['polarization_degree', 'polarization_angle']),
    Spec('ixpeobssim.core.stokes', 'xModelStokesParameters.polarization_degree', 'model_pd', ['q', 'u']),
    Spec('ixpeobssim.core.stokes', 'xModelStokesParameters.polarization_angle', 'model_pa', ['q', 'u']),
    Spec('ixpeobssim.core.stokes', 'xModelStokesParameters.pdpa_to_xy', 'pdpa_to_xy', ['pol_deg', 'pol_ang'], consts={'degrees': False}),
    Spec('ixpeobssim.irf.modf', 'xAzimuthalResponseGenerator.pdf', 'az_pdf', ['phi', 'm']),
    Spec('ixpeobssim.irf.modf', 'xAzimuthalResponseGenerator.cdf', 'az_cdf', ['phi', 'm']),
    Spec('ixpeobssim.irf.modf', 'xAzimuthalResponseGenerator.rvs_phi', 'az_rvs_phi', ['phase'],
         abstract={'rvs': 'x'}, note='`self.rvs(m)` (the inverse-cdf draw in [−π, π]) is the parameter `x`'),
    # --- C13: channel <-> energy
    Spec('ixpeobssim.irf.ebounds', 'energy_to_channel', 'energy_to_channel', ['energy']),
    Spec('ixpeobssim.irf.ebounds', 'channel_to_energy', 'channel_to_energy', ['channel']),
    Spec('ixpeobssim.evt.event', 'xBaseEventList.split_event_time', 'split_event_time', ['time_']),
    # --- C20: power-law normalisations
    Spec('ixpeobssim.srcmodel.spectrum', 'pl_integral', 'pl_integral', ['norm', 'index', 'emin', 'emax']),
    Spec('ixpeobssim.srcmodel.spectrum', 'pl_norm', 'pl_norm', ['integral', 'emin', 'emax', 'index', 'energy_power']),
    # --- C17: ephemeris polynomial
    Spec('ixpeobssim.srcmodel.ephemeris', 'xEphemeris.nu', 'eph_nu', [], abstract={'_dt': 'dt'},
         note='`self._dt(met)` = met − met0 is the parameter `dt`'),
    Spec('ixpeobssim.srcmodel.ephemeris', 'xEphemeris.nudot', 'eph_nudot', [], abstract={'_dt': 'dt'}),
    Spec('ixpeobssim.srcmodel.ephemeris', 'xEphemeris.met_to_phase', 'eph_met_to_phase', [], abstract={'_dt': 'dt'}),
    # --- C16: sky-position samplers, RNG draws as parameters
    Spec('ixpeobssim.srcmodel.roi', 'xUniformDisk.rvs_sky_coordinates', 'disk_rvs', [],
         abstract={'numpy.random.sample': 'u1', 'numpy.random.uniform': 'theta'},
         note='`numpy.random.sample` -> u1 ∈ [0,1); `numpy.random.uniform(0, 2π)` -> theta'),
    Spec('ixpeobssim.srcmodel.roi', 'xUniformAnnulus.rvs_sky_coordinates', 'annulus_rvs', [],
         abstract={'numpy.random.sample': 'u1', 'numpy.random.uniform': 'theta'}),
    Spec('ixpeobssim.srcmodel.polarization', 'xPolarizationFieldBase._delta', 'field_delta', ['ra', 'dec']),
    Spec('ixpeobssim.srcmodel.polarization', 'xRadialPolarizationField.polarization_angle', 'radial_pa', [],
         abstract={'_delta': ('dx', 'dy')}, note='`self._delta(ra, dec)` is the parameter pair (dx, dy)'),
    Spec('ixpeobssim.srcmodel.polarization', 'xTangentialPolarizationField.polarization_angle', 'tangential_pa', [],
         abstract={'_delta': ('dx', 'dy')}),
]


def python_callable_info(spec):
    return dict(module=spec.module, qual=spec.qual, lean=spec.lean, params=spec.params, bools=spec.bools,
                selfattrs=spec._selfattrs, absparams=spec._absparams, nret=spec._nret, notes=spec._notes,
                consts={k: (v if not isinstance(v, float) else v) for k, v in spec.consts.items()},
                abstract={k: v for k, v in spec.abstract.items()})


def write_if_changed(path, text):
    old = open(path).read() if os.path.exists(path) else None
    if old != text:
        with open(path, 'w') as f:
            f.write(text)
        return True
    return False


def tables():
    """Declarative tables read from the imported modules."""
    out = ['import IxpeVerif.Num', '/-! Generated by translator/gen.py from the /repo working tree — do not edit. -/', 'namespace Gen', '']
    from ixpeobssim.instrument import du, gpd, mma
    import numpy
    ang = du.__dict__['__DU_ROTATION_ANGLE']
    degs = [float(numpy.degrees(ang[i])) for i in du.DU_IDS]
    out.append('/-- `du.__DU_ROTATION_ANGLE` in integer degrees (numpy.radians(109.) …), indexed by DU id − 1 -/')
    ints = []
    for d in degs:
        r = round(d)
        if abs(r - d) > 1e-9:
            raise Untranslatable('non-integer DU angle')
        ints.append(r)
    out.append('def duRotationDeg : List Int := %s' % json.dumps(ints))
    out.append('def duIds : List Nat := %s' % json.dumps([int(i) for i in du.DU_IDS]))
    out.append('')
    from ixpeobssim.irf import ebounds
    out.append('/-- `irf/ebounds.py` constants: (value·1000 as an integer, so 0.04 keV = 40 eV) -/')
    out.append('def energyStepEv : Int := %d' % round(ebounds.ENERGY_STEP * 1000))
    out.append('def piEnergyMinEv : Int := %d' % round(ebounds.PI_ENERGY_MIN * 1000))
    out.append('def piEnergyMaxEv : Int := %d' % round(ebounds.PI_ENERGY_MAX * 1000))
    out.append('def numChannels : Nat := %d' % ebounds.NUM_CHANNELS)
    out.append('def tlmin : Int := %d' % ebounds.TLMIN)
    out.append('def tlmax : Int := %d' % ebounds.TLMAX)
    out.append('')
    out.append('end Gen')
    return '\n'.join(out) + '\n'


def lstr(x):
    """a string as a list of character codes (Nat literals are fast in the kernel, Char is not)"""
    return '[%s]' % ', '.join(str(ord(c)) for c in x)


def caldb_table():
    """The CALDB directory listing and the name-composition constants, as Lean literals (C12)."""
    import ixpeobssim
    from ixpeobssim.irf import caldb, legacy
    root = os.path.join(os.path.dirname(ixpeobssim.__file__), 'caldb', 'ixpe')
    folders = caldb.__dict__['__CALDB_FOLDER_DICT']
    out = ['/-! Generated by translator/gen.py from the /repo working tree (directory listing of ixpeobssim/caldb and constants of irf/caldb.py, irf/legacy.py) — do not edit. -/',
           'set_option maxRecDepth 100000', 'namespace Gen', '']
    out.append('/-- `__CALDB_FOLDER_DICT`: irf type -> folder (relative to caldb/ixpe) -/')
    out.append('def caldbFolders : List (List Nat × List Nat) := [%s]' % ', '.join('(%s, %s)' % (lstr(k), lstr('/'.join(v))) for k, v in folders.items()))
    out.append('def validWeightNames : List (List Nat) := [%s]' % ', '.join(lstr(x) for x in caldb.VALID_WEIGHT_NAMES))
    out.append('def supportedSimpleTypes : List (List Nat) := [%s]' % ', '.join(lstr(x) for x in caldb.SUPPORTED_SIMPLE_IRF_TYPES))
    out.append('def supportedGrayTypes : List (List Nat) := [%s]' % ', '.join(lstr(x) for x in caldb.SUPPORTED_GRAY_IRF_TYPES))
    out.append('def legacyNames : List (List Nat × List Nat) := [%s]' % ', '.join('(%s, %s)' % (lstr(k), lstr(v)) for k, v in legacy._LEGACY_IRF_NAME_DICT.items()))
    listing = []
    for t, parts in sorted(folders.items()):
        d = os.path.join(root, *parts)
        if os.path.isdir(d):
            for f in sorted(os.listdir(d)):
                listing.append(('/'.join(parts), f))
    # the IRF names present in the CALDB: from the plain (unweighted-suffix-free, no gray) arf files of DU 1; completeness is *proved* (no_orphans), not trusted
    import re
    names = set()
    arfdir = os.path.join(root, *folders['arf'])
    for f in sorted(os.listdir(arfdir)):
        m = re.match(r'^(ixpe)_d1_(.+)_v(\d+)\.arf$', f)
        if m and 'simple' not in m.group(2) and 'gray' not in m.group(2):
            names.add((m.group(1), m.group(2), int(m.group(3))))
    out.append('/-- (base, intent, version) of every response set shipped -/')
    out.append('def irfNames : List (List Nat × List Nat × Nat) := [%s]' % ', '.join('(%s, %s, %d)' % (lstr(a), lstr(b), c) for a, b, c in sorted(names)))
    out.append('-- caldbListing (below): every file under the CALDB folders known to `__CALDB_FOLDER_DICT`: (folder, file name)')
    # untrusted witnesses, checked by the kernel in Props/C12.lean:
    #  * for every file under a loader folder, a configuration (name index, du, type index, simple, gray) that composes it
    #  * for every plain configuration (no flags), the index of its file in the listing
    TYPES = ['arf', 'mrf', 'modf', 'rmf', 'vign', 'psf']
    nl = sorted(names)
    comp = {}
    for ni, (b, it, v) in enumerate(nl):
        for du in (1, 2, 3):
            for ti, t in enumerate(TYPES):
                for sflag in (False, True):
                    for gflag in (False, True):
                        try:
                            f = caldb.irf_file_name(b, du, t, it, v, sflag, gflag)
                        except RuntimeError:
                            continue
                        comp.setdefault(('/'.join(folders[t]), f), (ni, du, ti, int(sflag), int(gflag)))
    lfold = set('/'.join(folders[t]) for t in TYPES)
    wit = [comp.get(p, (9999, 0, 0, 0, 0)) for p in listing if p[0] in lfold]
    out.append('/-- witness configurations (name index, du, type index, simple, gray), one per file under the loader folders, in listing order -/')
    out.append('def orphanWitness : List (Nat × Nat × Nat × Nat × Nat) := [%s]' % ', '.join('(%d, %d, %d, %d, %d)' % w for w in wit))
    idx = {p: i for i, p in enumerate(listing)}
    plain = []
    for ni, (b, it, v) in enumerate(nl):
        for du in (1, 2, 3):
            for ti, t in enumerate(TYPES):
                plain.append(idx.get(('/'.join(folders[t]), caldb.irf_file_name(b, du, t, it, v)), 99999))
    out.append('/-- listing index of the file of every plain configuration, in the order names × du × types -/')
    out.append('def plainWitness : List Nat := [%s]' % ', '.join(map(str, plain)))
    CH = 30
    chunks = [listing[i:i + CH] for i in range(0, len(listing), CH)]
    for k, ch in enumerate(chunks):
        out.append('def caldbListing_%d : List (List Nat × List Nat) := [' % k)
        out.append(',\n'.join('  (%s, %s)' % (lstr(a), lstr(b)) for a, b in ch))
        out.append(']')
    out.append('def caldbListing : List (List Nat × List Nat) := %s' % ' ++ '.join('caldbListing_%d' % k for k in range(len(chunks))))
    out.append('')
    out.append('end Gen')
    return '\n'.join(out) + '\n'


SPEC_MODULES = ['ixpeobssim.evt.fmt', 'ixpeobssim.binning.fmt', 'ixpeobssim.irfgen.fmt', 'ixpeobssim.instrument.charging', 'ixpeobssim.evt.ixpesim']


def spec_classes():
    """every module-level subclass of xBinTableHDUBase / xPrimaryHDU of the format modules, in source order"""
    from ixpeobssim.core.fitsio import xBinTableHDUBase, xPrimaryHDU
    res = []
    for mn in SPEC_MODULES:
        mod = importlib.import_module(mn)
        for name, obj in vars(mod).items():
            if isinstance(obj, type) and obj.__module__ == mn and issubclass(obj, (xBinTableHDUBase, xPrimaryHDU)):
                res.append((mn, name, obj, issubclass(obj, xBinTableHDUBase)))
    return res


def specs_table():
    """DATA_SPECS / HEADER_KEYWORDS of every HDU class and the constants of utils/time_.py, as Lean literals (C19)."""
    from ixpeobssim.utils import time_
    from ixpeobssim.core import fitsio
    import numpy

    def opt(x):
        return 'none' if x is None else 'some %s' % lstr(str(x))
    out = ['/-! Generated by translator/gen.py from the /repo working tree (class attributes of the format modules, constants of utils/time_.py and '
           'core/fitsio.py) — do not edit. -/', 'namespace Gen', '']
    names = []
    for mn, name, cls, is_table in spec_classes():
        key = '%s_%s' % (mn.split('.')[-2], name)
        if is_table:
            items = []
            for it in cls.DATA_SPECS:
                if not isinstance(it, (tuple, list)):
                    raise Untranslatable('DATA_SPECS item of %s is not a tuple' % name)
                items.append('[%s]' % ', '.join(opt(x) for x in it))
            out.append('/-- `%s.%s.DATA_SPECS` -/' % (mn, name))
            out.append('def specs_%s : List (List (Option (List Nat))) := [%s]' % (key, ',\n  '.join(items)))
        kws = [str(k[0]) for k in cls.HEADER_KEYWORDS]
        out.append('/-- keyword names of `%s.%s.HEADER_KEYWORDS` -/' % (mn, name))
        out.append('def keywords_%s : List (List Nat) := [%s]' % (key, ', '.join(lstr(k) for k in kws)))
        names.append((key, '%s.%s' % (mn.split('.')[-2], name), getattr(cls, 'NAME', None), is_table))
    out.append('/-- (package.class name, EXTNAME, DATA_SPECS) of every binary-table class -/')
    out.append('def specTables : List (List Nat × Option (List Nat) × List (List (Option (List Nat)))) := [%s]' % ',\n  '.join(
        '(%s, %s, specs_%s)' % (lstr(n), opt(ext), k) for k, n, ext, t in names if t))
    out.append('def keywordTables : List (List Nat × List (List Nat)) := [%s]' % ',\n  '.join('(%s, keywords_%s)' % (lstr(n), k) for k, n, ext, t in names))
    out.append('')
    out.append('/-- `FITS_TO_NUMPY_TYPE_DICT`: format code -> (kind: 0 float / 1 int, bits) -/')
    kinds = []
    for code, tp in fitsio.FITS_TO_NUMPY_TYPE_DICT.items():
        dt = numpy.dtype(tp)
        kinds.append('(%s, %d, %d)' % (lstr(code), 0 if dt.kind == 'f' else 1, dt.itemsize * 8))
    out.append('def fitsNumpyTypes : List (List Nat × Nat × Nat) := [%s]' % ', '.join(kinds))
    out.append('')
    d = time_.MISSION_START_DATETIME
    out.append('/-- `utils/time_.py` -/')
    out.append('def missionStartUnixTime : Int := %d' % time_.MISSION_START_UNIX_TIME)
    out.append('def missionStartMjd : Int := %d' % time_.MISSION_START_MJD)
    out.append('def missionStartDatetime : List Int := [%d, %d, %d, %d, %d, %d, %d]' % (d.year, d.month, d.day, d.hour, d.minute, d.second, d.microsecond))
    out.append('def datetimeFmt : List Nat := %s' % lstr(time_.DATETIME_FMT))
    out.append('')
    out.append('end Gen')
    return '\n'.join(out) + '\n'


def main():
    update = '--update-golden' in sys.argv
    golden = json.load(open(GOLDEN)) if os.path.exists(GOLDEN) else {}
    reg = {}
    for s in SPECS:
        if '.' not in s.qual:
            reg[s.qual] = s
        elif s.lean == s.qual.split('.')[-1] and s.lean.startswith('calculate_'):
            reg[s.lean] = s          # the static per-bin functions of xStokesAnalysis, called from the binned products
    tr = Translator(reg)
    status = {'functions': {}, 'tables': 'ok'}
    defs = []
    for s in SPECS:
        try:
            text = tr.function(s)
            status['functions'][s.lean] = dict(python_callable_info(s), tie='translated')
            if golden.get(s.lean, {}).get('text') != text:
                status['functions'][s.lean]['differs_from_golden'] = s.lean in golden
            status['functions'][s.lean]['abscalls'] = s._abscalls
            if s.lean in golden and golden[s.lean].get('abscalls', s._abscalls) != s._abscalls:
                # the arguments handed to a call that the model abstracts into a parameter changed:
                # the generated definition cannot see that, so the tie is degraded and says so
                status['functions'][s.lean]['tie'] = 'abstract-call-changed'
                status['functions'][s.lean]['reason'] = 'abstracted calls were %s, now %s' % (golden[s.lean].get('abscalls'), s._abscalls)
        except Exception as e:  # Untranslatable or a Python-side error: fall back to golden
            g = golden.get(s.lean)
            if g is None:
                raise
            text = g['text']
            s._selfattrs, s._absparams, s._nret, s._notes = g['selfattrs'], g['absparams'], g['nret'], g['notes']
            s._abscalls = g.get('abscalls', [])
            status['functions'][s.lean] = dict(python_callable_info(s), tie='correspondence-only',
                                               reason='%s: %s' % (type(e).__name__, e))
        if update:
            golden[s.lean] = dict(text=text, selfattrs=s._selfattrs, absparams=s._absparams, nret=s._nret, notes=s._notes, abscalls=s._abscalls)
        defs.append(text)
    os.makedirs(GEN, exist_ok=True)
    head = ('import IxpeVerif.Num\n/-! Generated by translator/gen.py from the /repo working tree — do not edit.\n'
            'Each definition is the Python function named in its docstring, translated statement by statement. -/\n'
            'set_option linter.unusedVariables false\nnamespace Gen\n\n')
    changed = write_if_changed(os.path.join(GEN, 'Formulas.lean'), head + '\n'.join(defs) + '\nend Gen\n')
    # dispatcher for the line-protocol driver
    d = ['import IxpeVerif.Gen.Formulas', '/-! Generated: name -> Float evaluation of the generated definitions. -/', 'namespace Gen', '',
         'def dispatch (name : String) (a : Array Float) (b : Array Bool) : Option (List Float) :=', '  match name with']
    for s in SPECS:
        n = len(s.params) + len(s._selfattrs) + len(s._absparams)
        args = ' '.join('a[%d]!' % i for i in range(n)) + ''.join(' b[%d]!' % i for i in range(len(s.bools)))
        call = '(%s (α := Float) %s)' % (s.lean, args) if (n or s.bools) else '(%s (α := Float))' % s.lean
        if s._nret == 1:
            res = '[%s]' % call
        elif s._nret == 2:
            res = 'let r := %s; [r.1, r.2]' % call
        elif s._nret >= 3:
            projs = ['r' + '.2' * i + ('.1' if i < s._nret - 1 else '') for i in range(s._nret)]
            res = 'let r := %s; [%s]' % (call, ', '.join(projs))
        else:
            raise SystemExit('arity')
        d.append('  | "%s" => if a.size = %d ∧ b.size = %d then some (%s) else none' % (s.lean, n, len(s.bools), res))
    d += ['  | _ => none', '', 'end Gen', '']
    changed |= write_if_changed(os.path.join(GEN, 'Dispatch.lean'), '\n'.join(d))
    try:
        changed |= write_if_changed(os.path.join(GEN, 'Tables.lean'), tables())
    except Exception as e:
        status['tables'] = 'failed: %s' % e
    try:
        changed |= write_if_changed(os.path.join(GEN, 'Caldb.lean'), caldb_table())
    except Exception as e:
        status['caldb'] = 'failed: %s' % e
    try:
        changed |= write_if_changed(os.path.join(GEN, 'Specs.lean'), specs_table())
        status['specs'] = 'ok'
    except Exception as e:
        status['specs'] = 'failed: %s' % e
    try:
        import masks
        g2 = dict(golden)
        txt, mst = masks.lean_file(g2)
        changed |= write_if_changed(os.path.join(GEN, 'Masks.lean'), txt)
        for k_, v_ in mst.items():
            status['functions'][k_] = dict(v_, module='ixpeobssim.evt.subselect', lean=k_, params=[], bools=[], selfattrs=[], absparams=[], nret=1, notes=[], abscalls=[])
        if update:
            for k_, v_ in g2.items():
                if k_.startswith('mask:'):
                    golden[k_] = v_
    except Exception as e:
        status['masks'] = 'failed: %s' % e
    try:
        import imptrans as imptr
        g3 = dict(golden)
        txt, ist = imptr.lean_file(g3)
        changed |= write_if_changed(os.path.join(GEN, 'Imp.lean'), txt)
        for k_, v_ in ist.items():
            status['functions'][k_] = dict(v_, lean='Imp.' + k_, params=[], bools=[], selfattrs=[], absparams=[], nret=1, abscalls=[])
        if update:
            for k_, v_ in g3.items():
                if k_.startswith('imp:'):
                    golden[k_] = v_
    except Exception as e:
        status['imp'] = 'failed: %s' % e
    try:
        import realimp
        g5 = dict(golden)
        txt, rst = realimp.lean_file(g5)
        changed |= write_if_changed(os.path.join(GEN, 'ImpR.lean'), txt)
        for k_, v_ in rst.items():
            status['functions'][k_] = dict(v_, lean='ImpR.' + k_, params=[], bools=[], selfattrs=[], absparams=[], nret=1, abscalls=[])
        if update:
            for k_, v_ in g5.items():
                if k_.startswith('impr:'):
                    golden[k_] = v_
    except Exception as e:
        status['impr'] = 'failed: %s' % e
    try:
        import skeltrans
        g6 = dict(golden)
        txt, kst = skeltrans.lean_file(g6)
        changed |= write_if_changed(os.path.join(GEN, 'Skel.lean'), txt)
        for k_, v_ in kst.items():
            status['functions']['skel_' + k_] = dict(v_, lean='Skel.' + k_, params=[], bools=[], selfattrs=[], absparams=[], nret=1, abscalls=[])
        if update:
            for k_, v_ in g6.items():
                if k_.startswith('skel:'):
                    golden[k_] = v_
    except Exception as e:
        status['skel'] = 'failed: %s' % e
    try:
        import strtrans
        g4 = dict(golden)
        txt, sst = strtrans.lean_file(g4)
        changed |= write_if_changed(os.path.join(GEN, 'IrfNameGen.lean'), txt)
        for k_, v_ in sst.items():
            status['functions'][k_] = dict(v_, lean='Str.' + k_, params=[], bools=[], selfattrs=[], absparams=[], nret=1, abscalls=[])
        if update:
            for k_, v_ in g4.items():
                if k_.startswith('str:'):
                    golden[k_] = v_
    except Exception as e:
        status['strtrans'] = 'failed: %s' % e
    try:
        import fwdtrans
        g7 = dict(golden)
        txt, fst = fwdtrans.lean_file(g7)
        changed |= write_if_changed(os.path.join(GEN, 'Loaders.lean'), txt)
        for k_, v_ in fst.items():
            status['functions'][k_] = dict(v_, lean='Fwd.' + k_[4:], params=[], bools=[], selfattrs=[], absparams=[], nret=1, abscalls=[])
        if update:
            for k_, v_ in g7.items():
                if k_.startswith('fwd:'):
                    golden[k_] = v_
    except Exception as e:
        status['fwd'] = 'failed: %s' % e
    try:
        import histtrans
        g8 = dict(golden)
        txt, hst = histtrans.lean_file(g8)
        changed |= write_if_changed(os.path.join(GEN, 'HistGen.lean'), txt)
        for k_, v_ in hst.items():
            status['functions'][k_] = dict(v_, lean='Hist.' + k_[5:], params=[], bools=[], selfattrs=[], absparams=[], nret=1, abscalls=[])
        if update:
            for k_, v_ in g8.items():
                if k_.startswith('hist:'):
                    golden[k_] = v_
    except Exception as e:
        status['hist'] = 'failed: %s' % e
    try:
        import selecttrans
        g9 = dict(golden)
        txt, sst2 = selecttrans.lean_file(g9)
        changed |= write_if_changed(os.path.join(GEN, 'SelectGen.lean'), txt)
        for k_, v_ in sst2.items():
            status['functions'][k_] = dict(v_, lean=k_, params=[], bools=[], selfattrs=[], absparams=[], nret=1, abscalls=[])
        if update:
            for k_, v_ in g9.items():
                if k_.startswith('select:'):
                    golden[k_] = v_
    except Exception as e:
        status['selecttrans'] = 'failed: %s' % e
    try:
        import vectrans
        g10 = dict(golden)
        txt, vst = vectrans.lean_file(g10)
        changed |= write_if_changed(os.path.join(GEN, 'AnaGen.lean'), txt)
        for k_, v_ in vst.items():
            status['functions'][k_] = dict(v_, lean='Ana.' + k_[4:], params=[], bools=[], selfattrs=[], absparams=[], nret=1, abscalls=[])
        if update:
            for k_, v_ in g10.items():
                if k_.startswith('ana:'):
                    golden[k_] = v_
    except Exception as e:
        status['vectrans'] = 'failed: %s' % e
    try:
        import lamtrans
        g11 = dict(golden)
        txt, lst = lamtrans.lean_file(g11)
        changed |= write_if_changed(os.path.join(GEN, 'RatesGen.lean'), txt)
        for k_, v_ in lst.items():
            status['functions'][k_] = dict(v_, lean='Rates.' + k_[6:], params=[], bools=[], selfattrs=[], absparams=[], nret=1, abscalls=[])
        if update:
            for k_, v_ in g11.items():
                if k_.startswith('rates:'):
                    golden[k_] = v_
    except Exception as e:
        status['lamtrans'] = 'failed: %s' % e
    try:
        import lamtrans
        g12 = dict(golden)
        txt, ist = lamtrans.lean_file_img(g12)
        changed |= write_if_changed(os.path.join(GEN, 'ImgGen.lean'), txt)
        for k_, v_ in ist.items():
            status['functions'][k_] = dict(v_, lean='Img.' + k_[4:], params=[], bools=[], selfattrs=[], absparams=[], nret=1, abscalls=[])
        if update:
            for k_, v_ in g12.items():
                if k_.startswith('img:'):
                    golden[k_] = v_
    except Exception as e:
        status['lamtrans_img'] = 'failed: %s' % e
    try:
        import cachesites
        txt, sites = cachesites.lean_table(os.environ.get('IXPE_REPO', os.path.dirname(os.path.dirname(importlib.import_module('ixpeobssim').__file__))))
        changed |= write_if_changed(os.path.join(GEN, 'CacheSites.lean'), txt)
        status['cachesites'] = [list(x) for x in sites]
    except Exception as e:
        status['cachesites'] = 'failed: %s' % e
    try:
        import rngsites
        txt, info = rngsites.table(os.environ.get('IXPE_REPO', os.path.dirname(os.path.dirname(importlib.import_module('ixpeobssim').__file__))))
        changed |= write_if_changed(os.path.join(GEN, 'RngSites.lean'), txt)
        status['rngsites'] = {a: dict(n=len(i['sites']), seeds=i['seeds'], du_expr=i['du_expr'], guard=i['guard'], nonglobal=[x for x in i['sites'] if x[3] != 0]) for a, i in info.items()}
    except Exception as e:
        status['rngsites'] = 'failed: %s' % e
    status['changed'] = changed
    json.dump(status, open(os.path.join(HERE, 'gen_status.json'), 'w'), indent=1, default=str)
    if update:
        json.dump(golden, open(GOLDEN, 'w'), indent=1)
    n_t = sum(1 for v in status['functions'].values() if v['tie'] == 'translated')
    print('gen: %d/%d functions translated, changed=%s, tables=%s' % (n_t, len(status['functions']), changed, status['tables']))
    for k, v in status['functions'].items():
        if v['tie'] != 'translated':
            print('  fallback to golden: %s (%s)' % (k, v['reason']))


if __name__ == '__main__':
    main()
