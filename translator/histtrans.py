"""Object / n-d array translator (T-tie for C19): the persistence, copy and arithmetic methods of `xHistogramBase` (core/hist.py)
-> Lean definitions on `HistIO.Hist`, `HistIO.File`, `Nd.Arr` (`Gen/HistGen.lean`), statement by statement.

  set_errors, errors, set_content, empty_copy, copy, __add__, __sub__, __mul__, save, from_file

Reading of the source:
  self.<content|entries|sumw2|binning|labels>   the fields of the histogram          `x.copy()`            the same values (a fresh buffer)
  a + b, a - b, a * v on arrays                 pointwise                             `e ** 2.0`            e · e pointwise
  numpy.sqrt(a)                                 pointwise                             `a.T`                 all axes reversed (`Nd.Arr.T`)
  self.__class__(*self.binning, *self.labels), cls(*edges, *labels)                   `HistIO.new` (the constructor: zero arrays of the shape of the binning)
  `if x is not None: …` on an optional argument a case distinction                    `assert …`            recorded precondition
  a method called on a histogram                the generated function of that method
  save:      `fits.PrimaryHDU(a)` / `fits.ImageHDU(a, name=self.<n>_hdu_name())`  the image field of that name; the loop writing the labels as
             keywords  the `labels` field; the loop writing each binning as an `E` column  the `binning` field rounded to single precision (`r32`)
  from_file: `hdu_list['Primary'].data`, `hdu_list[cls.<n>_hdu_name()].data`  the image fields read back as arrays; the comprehension over the
             binning HDUs  `binning`; the comprehension over the label keywords  `labels`
Anything else raises Untranslatable (the committed golden text is then used and the tie is reported as `correspondence-only`).
"""
import ast
import inspect
import importlib
import textwrap

from py2lean import Untranslatable

FIELDS = {'content': 'A', 'entries': 'A', 'sumw2': 'A', 'binning': 'BIN', 'labels': 'LAB'}
HDU = {"'Primary'": 'primary', 'cls.entries_hdu_name()': 'entries', 'cls.sumw2_hdu_name()': 'sumw2', 'self.entries_hdu_name()': 'entries', 'self.sumw2_hdu_name()': 'sumw2'}
METHODS = {'set_errors': 'set_errors', 'errors': 'errors', 'set_content': 'set_content', 'empty_copy': 'empty_copy', 'copy': 'copy'}


class Hist:
    def __init__(self, qual, lean, params, ret, note=''):
        self.qual, self.lean, self.params, self.ret, self.note = qual, lean, params, ret, note
        self.notes = []

    def obj(self):
        o = importlib.import_module('ixpeobssim.core.hist')
        for part in self.qual.split('.'):
            o = getattr(o, part)
        return getattr(o, '__func__', o)

    # ------------------------------------------------------------------ expressions: (lean, type) with types A (array), OA (optional array), H (histogram), R
    def expr(self, n, env):
        txt = ast.unparse(n)
        if isinstance(n, ast.Name) and n.id in env:
            return n.id, env[n.id]
        if isinstance(n, ast.Attribute) and isinstance(n.value, ast.Name) and env.get(n.value.id) == 'H' and n.attr in FIELDS:
            return '%s.%s' % (n.value.id, n.attr), FIELDS[n.attr]
        if isinstance(n, ast.Attribute) and n.attr == 'T':
            a, t = self.expr(n.value, env)
            if t == 'A':
                return '%s.T' % a, 'A'
        if isinstance(n, ast.Call) and isinstance(n.func, ast.Attribute) and n.func.attr == 'copy' and not n.args:
            a, t = self.expr(n.func.value, env)
            if t == 'A':
                return a, 'A'
        if isinstance(n, ast.Call) and ast.unparse(n.func) == 'numpy.sqrt' and len(n.args) == 1:
            a, t = self.expr(n.args[0], env)
            if t == 'A':
                return '(%s.map RealLike.sqrt)' % a, 'A'
        if isinstance(n, ast.BinOp):
            if isinstance(n.op, ast.Pow) and isinstance(n.right, ast.Constant) and n.right.value == 2:
                a, t = self.expr(n.left, env)
                if t == 'A':
                    return '(%s.map fun x => x * x)' % a, 'A'
            a, ta = self.expr(n.left, env)
            b, tb = self.expr(n.right, env)
            sym = {ast.Add: '+', ast.Sub: '-', ast.Mult: '*'}.get(type(n.op))
            if sym and (ta, tb) == ('A', 'A'):
                return '(%s.zip (· %s ·) %s)' % (a, sym, b), 'A'
            if sym == '*' and (ta, tb) == ('A', 'R'):
                return '(%s.map (· * %s))' % (a, b), 'A'
        # a method of a histogram used as a value: self.errors()
        if isinstance(n, ast.Call) and isinstance(n.func, ast.Attribute) and isinstance(n.func.value, ast.Name) and env.get(n.func.value.id) == 'H' \
                and n.func.attr == 'errors' and not n.args:
            return '(errors %s)' % n.func.value.id, 'A'
        if isinstance(n, ast.Call) and isinstance(n.func, ast.Attribute) and isinstance(n.func.value, ast.Name) and env.get(n.func.value.id) == 'H' \
                and n.func.attr == 'empty_copy' and not n.args:
            return '(empty_copy %s)' % n.func.value.id, 'H'
        # the constructor
        if isinstance(n, ast.Call) and ast.unparse(n.func) in ('self.__class__', 'cls') and len(n.args) == 2 and all(isinstance(a, ast.Starred) for a in n.args):
            a, ta = self.expr(n.args[0].value, env)
            b, tb = self.expr(n.args[1].value, env)
            if (ta, tb) == ('BIN', 'LAB'):
                note = 'the constructor call is `HistIO.new`: zero content, entries and sumw2 of the shape the binning dictates'
                if note not in self.notes:
                    self.notes.append(note)
                return '(HistIO.new %s %s)' % (a, b), 'H'
        # reading an image back: hdu_list[<name>].data
        if isinstance(n, ast.Attribute) and n.attr == 'data' and isinstance(n.value, ast.Subscript) and ast.unparse(n.value.value) == 'hdu_list':
            key = ast.unparse(n.value.slice)
            if key in HDU and 'hdu_list' in env:
                return '(f.%s.toArr 0.0)' % HDU[key], 'A'
        if isinstance(n, ast.Constant) and n.value is None:
            return 'none', 'OA'
        raise Untranslatable('expression %s' % txt[:70])

    def opt(self, n, env):
        a, t = self.expr(n, env)
        return ('(some %s)' % a) if t == 'A' else a

    # ------------------------------------------------------------------ statements
    def block(self, stmts, env, ind, result):
        pad = '  ' * ind
        if not stmts:
            if result is None:
                raise Untranslatable('no result')
            return pad + result
        s, rest = stmts[0], stmts[1:]
        nxt = lambda e=env, r=result: self.block(rest, e, ind, r)   # noqa
        txt = ast.unparse(s)
        if isinstance(s, ast.Expr) and isinstance(s.value, ast.Constant):
            return nxt()
        if isinstance(s, ast.Expr) and isinstance(s.value, ast.Call) and ast.unparse(s.value.func).startswith('logger.'):
            return nxt()
        if isinstance(s, ast.Assert):
            self.notes.append('precondition: %s' % ast.unparse(s.test))
            return nxt()
        if isinstance(s, ast.Return):
            v, t = self.expr(s.value, env)
            return pad + v
        # self.<field> = e   /   hist.<field> = e
        if isinstance(s, ast.Assign) and len(s.targets) == 1 and isinstance(s.targets[0], ast.Attribute) and isinstance(s.targets[0].value, ast.Name) \
                and env.get(s.targets[0].value.id) == 'H' and s.targets[0].attr in ('content', 'entries', 'sumw2'):
            h = s.targets[0].value.id
            v, t = self.expr(s.value, env)
            if t != 'A':
                raise Untranslatable('field assignment of %s' % t)
            return '%slet %s := { %s with %s := %s }\n' % (pad, h, h, s.targets[0].attr, v) + nxt()
        # name = e
        if isinstance(s, ast.Assign) and len(s.targets) == 1 and isinstance(s.targets[0], ast.Name):
            v, t = self.expr(s.value, env)
            return '%slet %s := %s\n' % (pad, s.targets[0].id, v) + nxt(dict(env, **{s.targets[0].id: t}))
        # h.method(args) as a statement: the histogram is updated
        if isinstance(s, ast.Expr) and isinstance(s.value, ast.Call) and isinstance(s.value.func, ast.Attribute) and isinstance(s.value.func.value, ast.Name) \
                and env.get(s.value.func.value.id) == 'H' and s.value.func.attr in ('set_content', 'set_errors'):
            h, m = s.value.func.value.id, s.value.func.attr
            return '%slet %s := %s\n' % (pad, h, self.method_call(m, h, s.value, env)) + nxt()
        # if x is not None: <statements>   on an optional argument
        if isinstance(s, ast.If) and not s.orelse and isinstance(s.test, ast.Compare) and isinstance(s.test.left, ast.Name) and env.get(s.test.left.id) == 'OA' \
                and len(s.test.ops) == 1 and isinstance(s.test.ops[0], ast.IsNot) and isinstance(s.test.comparators[0], ast.Constant) and s.test.comparators[0].value is None:
            x = s.test.left.id
            inner = self.block(list(s.body), dict(env, **{x: 'A'}), ind + 2, 'self')
            return '%slet self := match %s with\n%s  | some %s =>\n%s\n%s  | none => self\n' % (pad, x, pad, x, inner, pad) + nxt()
        raise Untranslatable('statement %s' % txt[:80])

    def method_call(self, m, h, call, env):
        if m == 'set_errors':
            a, t = self.expr(call.args[0], env)
            return '(set_errors %s %s)' % (h, a)
        if m == 'set_content':
            args = list(call.args) + [None] * (3 - len(call.args))
            if call.keywords:
                raise Untranslatable('keywords of set_content')
            c, tc = self.expr(args[0], env)
            e = 'none' if args[1] is None else self.opt(args[1], env)
            r = 'none' if args[2] is None else self.opt(args[2], env)
            return '(set_content %s %s %s %s)' % (h, c, e, r)
        raise Untranslatable('method %s' % m)

    def function(self):
        fn = ast.parse(textwrap.dedent(inspect.getsource(self.obj()))).body[0]
        env = dict(self.params)
        if self.lean == 'save':
            body = self.save(fn, env)
        elif self.lean == 'from_file':
            body = self.from_file(fn, env)
        else:
            stmts = list(fn.body)
            # `return self` at the end of a chained setter: the updated histogram
            body = self.block(stmts, env, 1, 'self' if self.ret == 'H' and 'self' in env else None)
        lt = {'H': 'HistIO.Hist α', 'A': 'Nd.Arr α', 'OA': 'Option (Nd.Arr α)', 'R': 'α', 'F': 'HistIO.File α', 'R32': 'α → α'}
        sig = ' '.join('(%s : %s)' % (k, lt[v]) for k, v in self.params)
        doc = '/-- `ixpeobssim.core.hist.%s`%s%s -/\n' % (self.qual, (' — ' + self.note) if self.note else '', ''.join('; ' + x for x in self.notes))
        return doc + 'def %s {α : Type} [RealLike α] %s : %s :=\n%s\n' % (self.lean, sig, lt[self.ret], body)

    # ------------------------------------------------------------------ save / from_file
    def save(self, fn, env):
        fields = {}
        for s in fn.body:
            txt = ast.unparse(s)
            if isinstance(s, ast.Expr) and (isinstance(s.value, ast.Constant) or ast.unparse(s.value.func).startswith('logger.')):
                continue
            # hdu_list = [fits.PrimaryHDU(a), fits.ImageHDU(b, name=…), …]
            if isinstance(s, ast.Assign) and isinstance(s.value, ast.List) and ast.unparse(s.targets[0]) == 'hdu_list':
                for e in s.value.elts:
                    f = ast.unparse(e.func)
                    if f == 'fits.PrimaryHDU' and len(e.args) == 1 and not e.keywords:
                        name = 'primary'
                    elif f == 'fits.ImageHDU' and len(e.args) == 1 and [k.arg for k in e.keywords] == ['name'] and ast.unparse(e.keywords[0].value) in HDU:
                        name = HDU[ast.unparse(e.keywords[0].value)]
                    else:
                        raise Untranslatable('HDU %s' % ast.unparse(e)[:60])
                    a, t = self.expr(e.args[0], env)
                    if t != 'A' or name in fields:
                        raise Untranslatable('image %s' % name)
                    fields[name] = '%s.toImage' % a
                continue
            if isinstance(s, ast.For) and txt.startswith('for key, value in header_keywords.items()'):
                self.notes.append('extra header keywords are not part of the definition')
                continue
            if isinstance(s, ast.For) and ast.unparse(s.iter) == 'enumerate(self.labels)' and len(s.body) == 1 \
                    and ast.unparse(s.body[0]) == 'hdu_list[0].header.set(self.label_keyword(i), label)':
                fields['labels'] = 'self.labels'
                continue
            if isinstance(s, ast.For) and ast.unparse(s.iter) == 'enumerate(self.binning)':
                b = [ast.unparse(x) for x in s.body]
                if len(b) == 4 and b[0] == "col = fits.Column(name=self.binning_col_name(), array=binning, format='E')" and b[1] == 'hdu = fits.BinTableHDU.from_columns([col])' \
                        and b[2] == 'hdu.name = self.binning_hdu_name(i)' and b[3] == 'hdu_list.append(hdu)':
                    fields['binning'] = 'self.binning.map (·.map r32)'
                    self.notes.append("the edges are written as `E` (single-precision) columns: `r32`")
                    continue
            if txt in ('hdu_list = fits.HDUList(hdu_list)', 'hdu_list.writeto(file_path, overwrite=overwrite)'):
                continue
            raise Untranslatable('statement %s' % txt[:80])
        want = ['primary', 'entries', 'sumw2', 'binning', 'labels']
        if sorted(fields) != sorted(want):
            raise Untranslatable('the file holds %s' % sorted(fields))
        return '  { ' + ',\n    '.join('%s := %s' % (k, fields[k]) for k in want) + ' }'

    def from_file(self, fn, env):
        if len(fn.body) < 2 or not isinstance(fn.body[-1], ast.Return):
            raise Untranslatable('shape of from_file')
        stmts = []
        for s in fn.body:
            if isinstance(s, ast.With) and ast.unparse(s.items[0]) == 'fits.open(file_path) as hdu_list':
                stmts += list(s.body)
            else:
                stmts.append(s)
        env = dict(env, hdu_list='FILE')
        out = ''
        pad = '  '
        for s in stmts:
            txt = ast.unparse(s)
            if isinstance(s, ast.Expr) and (isinstance(s.value, ast.Constant) or ast.unparse(s.value.func).startswith('logger.')):
                continue
            if txt == 'num_axes = len(content.shape)':
                continue
            if isinstance(s, ast.Assign) and ast.unparse(s.targets[0]) == 'edges' and ast.unparse(s.value) == \
                    '[hdu_list[cls.binning_hdu_name(i)].data[cls.binning_col_name()] for i in range(num_axes)]':
                out += '%slet edges := f.binning\n' % pad
                env['edges'] = 'BIN'
                continue
            if isinstance(s, ast.Assign) and ast.unparse(s.targets[0]) == 'labels' and ast.unparse(s.value) == \
                    "[hdu_list['Primary'].header[cls.label_keyword(i)] for i in range(num_axes + 1)]":
                out += '%slet labels := f.labels\n' % pad
                env['labels'] = 'LAB'
                continue
            if isinstance(s, ast.Assign) and len(s.targets) == 1 and isinstance(s.targets[0], ast.Name):
                v, t = self.expr(s.value, env)
                out += '%slet %s := %s\n' % (pad, s.targets[0].id, v)
                env[s.targets[0].id] = t
                continue
            if isinstance(s, ast.Expr) and isinstance(s.value, ast.Call) and isinstance(s.value.func, ast.Attribute) and isinstance(s.value.func.value, ast.Name) \
                    and env.get(s.value.func.value.id) == 'H' and s.value.func.attr == 'set_content':
                h = s.value.func.value.id
                out += '%slet %s := %s\n' % (pad, h, self.method_call('set_content', h, s.value, env))
                continue
            if isinstance(s, ast.Return) and isinstance(s.value, ast.Name) and env.get(s.value.id) == 'H':
                return out + pad + s.value.id
            raise Untranslatable('statement %s' % txt[:80])
        raise Untranslatable('no result')


SPECS = [
    Hist('xHistogramBase.set_errors', 'set_errors', [('self', 'H'), ('errors', 'A')], 'H'),
    Hist('xHistogramBase.errors', 'errors', [('self', 'H')], 'A'),
    Hist('xHistogramBase.set_content', 'set_content', [('self', 'H'), ('content', 'A'), ('entries', 'OA'), ('errors', 'OA')], 'H'),
    Hist('xHistogramBase.empty_copy', 'empty_copy', [('self', 'H')], 'H'),
    Hist('xHistogramBase.copy', 'copy', [('self', 'H')], 'H'),
    Hist('xHistogramBase.__add__', 'hist_add', [('self', 'H'), ('other', 'H')], 'H'),
    Hist('xHistogramBase.__sub__', 'hist_sub', [('self', 'H'), ('other', 'H')], 'H'),
    Hist('xHistogramBase.__mul__', 'hist_mul', [('self', 'H'), ('value', 'R')], 'H'),
    Hist('xHistogramBase.save', 'save', [('r32', 'R32'), ('self', 'H')], 'F', note='C19: what goes to disk'),
    Hist('xHistogramBase.from_file', 'from_file', [('f', 'F')], 'H', note='C19: what comes back'),
]


def lean_file(golden):
    out = ['import IxpeVerif.Model.HistIO', '/-! Generated by translator/histtrans.py from the /repo working tree — do not edit.',
           'The persistence, copy and arithmetic methods of `xHistogramBase` (core/hist.py), statement by statement, on `HistIO.Hist / File` and `Nd.Arr`. -/',
           'set_option linter.unusedVariables false', '', 'namespace Gen.Hist', 'open Nd', '']
    status = {}
    for sp in SPECS:
        key = 'hist:' + sp.lean
        try:
            txt = sp.function()
            status['hist_' + sp.lean] = dict(tie='translated', differs_from_golden=golden.get(key) not in (None, txt), notes=sp.notes, qual=sp.qual, module='ixpeobssim.core.hist')
            golden[key] = txt
        except Exception as e:
            txt = golden.get(key)
            if txt is None:
                raise
            status['hist_' + sp.lean] = dict(tie='correspondence-only', reason='%s: %s' % (type(e).__name__, e), qual=sp.qual, module='ixpeobssim.core.hist')
        out.append(txt)
    out += ['end Gen.Hist', '']
    return '\n'.join(out), status


if __name__ == '__main__':
    import sys
    g = {}
    txt, st = lean_file(g)
    print(txt)
    print({k: v['tie'] for k, v in st.items()}, file=sys.stderr)
