"""Imperative / array translator (T-tie for the *discrete bookkeeping* code): Python loops with break/continue and straight-line numpy array
code -> Lean definitions over `Int` ticks, `List Int`, `List Bool`, `List (Int × Int)` built on `Model/Np.lean`.

The hand-written models of the discrete properties (C04 C05 C18 …) stay; `Props/*.lean` prove `Gen.<f> = Model.<f>` for every input, so that an
edit of the loop structure, of a comparison, of an index expression or of the order of two array statements in the source breaks a proof
obligation (and the theorems about the model are theorems about the current source).

Subset (anything else raises Untranslatable → the committed golden text is used and the tie is reported as `correspondence-only`):
  statements   docstrings, calls listed in `skip` (logging), `assert` (recorded precondition),
               `x = e`, `a, b = e1, e2`, `x op= e`, `x[i] = e` (scalar index, integer-array index, boolean mask),
               `if / elif / else`, `for <targets> in <range | zip | name>` with `break` / `continue`,
               `return e` / bare `return` / an *effect call* declared in the spec whose argument is the result (`self.trim(good)`)
  expressions  integer-valued constants, names, `+ - *` on scalars and arrays (broadcast of a scalar), comparisons (scalar and array∘scalar),
               `and / or / not`, `len`, `x[i]`, `x[mask]`, `x[idx]`, `x[1:-1]`, tuples, `sum(<generator>)`, list comprehensions with filter,
               numpy.{append (scalar first), array, searchsorted, diff, ones/zeros(dtype=bool), logical_and, logical_not, floor(x * 1.e6)},
               the iterator pairing idiom of `xGTIList.complement`
  types        inferred on the Python side from the declared parameter types: I (Int) B (Bool) LI LB (lists) P (pair) LP (list of pairs)
"""
import ast
import inspect
import importlib
import textwrap

from py2lean import Untranslatable

LEAN_T = {'I': 'Int', 'B': 'Bool', 'LI': 'List Int', 'LB': 'List Bool', 'P': 'Int × Int', 'LP': 'List (Int × Int)', 'E': 'Np.Epoch', 'LE': 'List Np.Epoch'}
ELEM = {'LI': 'I', 'LB': 'B', 'LP': 'P', 'LE': 'E'}
LIST_OF = {v: k for k, v in ELEM.items()}
# the record type of `xTimelineEpoch` (fields named as in the source)
FIELDS = {'E': {'start_met': 'I', 'stop_met': 'I', 'in_saa': 'B', 'occulted': 'B'}}


def lean_type(t):
    if isinstance(t, tuple):
        return ' × '.join('(%s)' % lean_type(x) if isinstance(x, tuple) or ' ' in LEAN_T.get(x, '') else lean_type(x) for x in t)
    return LEAN_T[t]


class ImpSpec:
    def __init__(self, module, qual, lean, params, bind=None, effect=None, bare_return=None, skip=('logger.',), note='', selfname=None,
                 drop_after_effect=True, methods=None, calls=None, ctors=None, star_ctor=None, local_types=None):
        self.module, self.qual, self.lean = module, qual, lean
        self.params = list(params)            # [(lean/python name, type)]
        self.bind = dict(bind or {})          # python expression text -> parameter name
        self.effect = dict(effect or {})      # call text -> index of the argument that is the result
        self.bare_return = bare_return        # Lean text of the result of a bare `return`, with its type: (text, type)
        self.skip = tuple(skip)
        self.note = note
        self.selfname = selfname              # parameter that `self` denotes when iterated (`for (a, b) in self`)
        self.drop_after_effect = drop_after_effect  # statements after the effect call (logging of the result) are not part of the definition
        self.methods = dict(methods or {})    # (receiver type, attribute) -> (generated lean function, result type, is_property)
        self.calls = dict(calls or {})        # call text of a function that denotes a generated definition -> (lean function, result type, leading lean arguments)
        self.ctors = dict(ctors or {})        # constructor call text -> (lean constructor, result type)
        self.star_ctor = dict(star_ctor or {})  # `xGTIList(a, b, *gtis)` -> the value is the starred argument (the container of the intervals)
        self.local_types = dict(local_types or {})  # type of a local initialised with `[]`

    def obj(self):
        o = importlib.import_module(self.module)
        for part in self.qual.split('.'):
            o = getattr(o, part)
        return o


def _escapes(stmts):
    """does the block contain break / continue / return (not counting nested loops for break/continue)?"""
    for s in stmts:
        if isinstance(s, (ast.Break, ast.Continue, ast.Return)):
            return True
        if isinstance(s, ast.If) and (_escapes(s.body) or _escapes(s.orelse)):
            return True
        if isinstance(s, ast.For) and any(isinstance(n, ast.Return) for n in ast.walk(s)):
            return True
    return False


def _has_break(stmts):
    for s in stmts:
        if isinstance(s, ast.Break):
            return True
        if isinstance(s, ast.If) and (_has_break(s.body) or _has_break(s.orelse)):
            return True
    return False


def _assigned(stmts, acc=None):
    acc = [] if acc is None else acc

    def add(n):
        if n not in acc:
            acc.append(n)
    for s in stmts:
        if isinstance(s, ast.Assign):
            for t in s.targets:
                for n in ([t] if not isinstance(t, ast.Tuple) else t.elts):
                    if isinstance(n, ast.Name):
                        add(n.id)
                    elif isinstance(n, ast.Subscript) and isinstance(n.value, ast.Name):
                        add(n.value.id)
        elif isinstance(s, ast.AugAssign):
            if isinstance(s.target, ast.Name):
                add(s.target.id)
            elif isinstance(s.target, ast.Subscript) and isinstance(s.target.value, ast.Name):
                add(s.target.value.id)
        elif isinstance(s, ast.If):
            _assigned(s.body, acc)
            _assigned(s.orelse, acc)
        elif isinstance(s, ast.For):
            _assigned(s.body, acc)
        elif isinstance(s, ast.Expr) and isinstance(s.value, ast.Call) and isinstance(s.value.func, ast.Attribute) and s.value.func.attr == 'append' \
                and isinstance(s.value.func.value, ast.Name):
            add(s.value.func.value.id)
    return acc


class Imp:
    def __init__(self, spec):
        self.spec = spec
        self.notes = []
        self.rtype = None

    # ---------------------------------------------------------------- expressions
    def const(self, v):
        if isinstance(v, bool):
            return ('true' if v else 'false'), 'B'
        if isinstance(v, (int, float)) and float(v) == int(v):
            return '(%d : Int)' % int(v), 'I'
        raise Untranslatable('constant %r' % (v,))

    def expr(self, n, env):
        txt = ast.unparse(n)
        if txt in self.spec.bind:
            p = self.spec.bind[txt]
            return p, dict(self.spec.params)[p]
        if isinstance(n, ast.Constant):
            return self.const(n.value)
        if isinstance(n, ast.Name):
            if n.id not in env:
                raise Untranslatable('unknown name %s' % n.id)
            return n.id, env[n.id]
        if isinstance(n, ast.Tuple):
            parts = [self.expr(e, env) for e in n.elts]
            ts = tuple(t for _, t in parts)
            if ts == ('I', 'I'):
                ts = 'P'
            return '(%s)' % ', '.join(p for p, _ in parts), ts
        if isinstance(n, ast.UnaryOp) and isinstance(n.op, ast.Not):
            a, t = self.expr(n.operand, env)
            if t != 'B':
                raise Untranslatable('not on %s' % t)
            return '(!%s)' % a, 'B'
        if isinstance(n, ast.UnaryOp) and isinstance(n.op, ast.USub):
            a, t = self.expr(n.operand, env)
            if t != 'I':
                raise Untranslatable('minus on %s' % t)
            return '(-%s)' % a, 'I'
        if isinstance(n, ast.BoolOp):
            parts = [self.expr(v, env) for v in n.values]
            if any(t != 'B' for _, t in parts):
                raise Untranslatable('boolean operator on non-booleans: %s' % txt)
            op = ' && ' if isinstance(n.op, ast.And) else ' || '
            return '(%s)' % op.join(p for p, _ in parts), 'B'
        if isinstance(n, ast.BinOp):
            return self.binop(n, env)
        if isinstance(n, ast.Compare):
            return self.compare(n, env)
        if isinstance(n, ast.Subscript):
            return self.subscript(n, env)
        if isinstance(n, ast.Call):
            return self.call(n, env)
        if isinstance(n, ast.ListComp):
            return self.listcomp(n, env)
        if isinstance(n, ast.Attribute):
            a, ta = self.expr(n.value, env)
            if isinstance(ta, str) and n.attr in FIELDS.get(ta, {}):
                return '%s.%s' % (a, n.attr), FIELDS[ta][n.attr]
            m = self.spec.methods.get((ta, n.attr))
            if m is not None and m[2]:
                return '(%s %s)' % (m[0], a), m[1]
            raise Untranslatable('attribute %s of %s' % (n.attr, ta))
        raise Untranslatable('expression %s' % txt[:80])

    def binop(self, n, env):
        ops = {ast.Add: ('+', 'add'), ast.Sub: ('-', 'sub'), ast.Mult: ('*', 'mul'), ast.Mod: ('%', 'mod')}
        if isinstance(n.op, ast.Mult) and isinstance(n.left, ast.Constant) and n.left.value == 0.5:
            b, tb = self.expr(n.right, env)
            if tb != 'I':
                raise Untranslatable('0.5 * %s' % tb)
            note = 'the midpoint `0.5 * (…)` is `Np.half` (ticks: exact when the argument is even)'
            if note not in self.notes:
                self.notes.append(note)
            return '(Np.half %s)' % b, 'I'
        if type(n.op) not in ops:
            raise Untranslatable('operator in %s' % ast.unparse(n)[:60])
        sym, name = ops[type(n.op)]
        a, ta = self.expr(n.left, env)
        b, tb = self.expr(n.right, env)
        if name == 'mod':
            # Python's % with a positive literal modulus is the Euclidean remainder (`Int.emod`)
            if (ta, tb) == ('I', 'I') and isinstance(n.right, ast.Constant) and isinstance(n.right.value, int) and n.right.value > 0:
                return '(%s %% %s)' % (a, b), 'I'
            raise Untranslatable('%% on %s, %s' % (ta, tb))
        if (ta, tb) == ('I', 'I'):
            return '(%s %s %s)' % (a, sym, b), 'I'
        if name in ('add', 'sub') and (ta, tb) == ('LI', 'I'):
            return '(Np.%sVS %s %s)' % (name, a, b), 'LI'
        if name in ('add', 'sub') and (ta, tb) == ('LI', 'LI'):
            return '(Np.%sVV %s %s)' % (name, a, b), 'LI'
        raise Untranslatable('%s on %s, %s' % (sym, ta, tb))

    def compare(self, n, env):
        if len(n.ops) != 1:
            raise Untranslatable('chained comparison')
        a, ta = self.expr(n.left, env)
        b, tb = self.expr(n.comparators[0], env)
        op = type(n.ops[0])
        sc = {ast.Lt: '<', ast.LtE: '≤', ast.Gt: '>', ast.GtE: '≥', ast.Eq: '=', ast.NotEq: '≠'}
        vs = {ast.Lt: 'lt', ast.LtE: 'le', ast.Gt: 'gt', ast.GtE: 'ge'}
        if op not in sc:
            raise Untranslatable('comparison %s' % ast.unparse(n))
        if (ta, tb) == ('I', 'I'):
            return 'decide (%s %s %s)' % (a, sc[op], b), 'B'
        if (ta, tb) == ('LI', 'I') and op in vs:
            return '(Np.%sVS %s %s)' % (vs[op], a, b), 'LB'
        raise Untranslatable('comparison on %s, %s' % (ta, tb))

    def subscript(self, n, env):
        a, ta = self.expr(n.value, env)
        s = n.slice
        if isinstance(s, ast.Slice):
            lo = ast.unparse(s.lower) if s.lower is not None else None
            hi = ast.unparse(s.upper) if s.upper is not None else None
            if s.step is not None or not ta.startswith('L'):
                raise Untranslatable('slice %s' % ast.unparse(n))
            f = {('1', '-1'): 'inner', (None, '-1'): 'init', ('1', None): 'tail'}.get((lo, hi))
            if f is None:
                raise Untranslatable('slice %s' % ast.unparse(n))
            return '(Np.%s %s)' % (f, a), ta
        i, ti = self.expr(s, env)
        if (ta, ti) == ('LI', 'I'):
            return '(Np.getI %s %s)' % (a, i), 'I'
        if ta in ('LI', 'LB', 'LP') and ti == 'LB':
            return '(Np.compress %s %s)' % (i, a), ta
        if (ta, ti) == ('LI', 'LI'):
            return '(Np.take %s %s)' % (a, i), 'LI'
        raise Untranslatable('subscript %s[%s]' % (ta, ti))

    def call(self, n, env):
        f = ast.unparse(n.func)
        kw = {k.arg: k.value for k in n.keywords}
        if f in self.spec.star_ctor and n.args and isinstance(n.args[-1], ast.Starred) and not kw:
            v, t = self.expr(n.args[-1].value, env)
            self.notes.append('`%s(…, *%s)`: the value is the list of intervals handed to the constructor (which asserts that they lie in the span)' % (f, ast.unparse(n.args[-1].value)))
            return v, t
        if f in self.spec.ctors and not kw:
            ctor, rt = self.spec.ctors[f]
            args = [self.expr(a, env) for a in n.args]
            want = list(FIELDS[rt].values())
            if [t for _, t in args] != want:
                raise Untranslatable('constructor %s on %s' % (f, [t for _, t in args]))
            return '(%s %s)' % (ctor, ' '.join(a for a, _ in args)), rt
        if f in self.spec.calls and not kw:
            lean, rt, lead = self.spec.calls[f]
            args = [self.expr(a, env) for a in n.args]
            return '(%s %s)' % (lean, ' '.join(list(lead) + [a for a, _ in args])), rt
        if isinstance(n.func, ast.Attribute) and not kw:
            try:
                recv, tr_ = self.expr(n.func.value, env)
            except Untranslatable:
                recv, tr_ = None, None
            m = self.spec.methods.get((tr_, n.func.attr)) if recv is not None else None
            if m is not None and not m[2]:
                args = [self.expr(a, env) for a in n.args]
                return '(%s %s)' % (m[0], ' '.join([recv] + [a for a, _ in args])), m[1]
        if f == 'len' and len(n.args) == 1:
            a, t = self.expr(n.args[0], env)
            if not t.startswith('L'):
                raise Untranslatable('len of %s' % t)
            return '(Np.len %s)' % a, 'I'
        if f in ('numpy.array', 'list', 'float', 'int') and len(n.args) == 1 and not kw:
            a, t = self.expr(n.args[0], env)
            if f in ('float', 'int') and t != 'I':
                raise Untranslatable('%s of %s' % (f, t))
            return a, t
        if f == 'numpy.append' and len(n.args) == 2:
            a, ta = self.expr(n.args[0], env)
            b, tb = self.expr(n.args[1], env)
            if (ta, tb) == ('I', 'LI'):
                return '(Np.append1 %s %s)' % (a, b), 'LI'
            raise Untranslatable('append on %s, %s' % (ta, tb))
        if f == 'numpy.searchsorted' and len(n.args) == 2:
            side = 'left'
            if 'side' in kw:
                if not isinstance(kw['side'], ast.Constant) or kw['side'].value not in ('left', 'right'):
                    raise Untranslatable('searchsorted side')
                side = kw['side'].value
            if set(kw) - {'side'}:
                raise Untranslatable('searchsorted keywords')
            a, ta = self.expr(n.args[0], env)
            v, tv = self.expr(n.args[1], env)
            if ta != 'LI':
                raise Untranslatable('searchsorted on %s' % ta)
            if tv == 'LI':
                return '(Np.searchsorted%s %s %s)' % (side.capitalize(), a, v), 'LI'
            if tv == 'I':
                return '(Np.search%s1 %s %s)' % (side.capitalize(), a, v), 'I'
            raise Untranslatable('searchsorted value %s' % tv)
        if f == 'numpy.diff' and len(n.args) == 1 and not kw:
            a, t = self.expr(n.args[0], env)
            if t != 'LI':
                raise Untranslatable('diff of %s' % t)
            return '(Np.diff %s)' % a, 'LI'
        if f in ('numpy.ones', 'numpy.zeros') and len(n.args) == 1 and set(kw) == {'dtype'} and ast.unparse(kw['dtype']) == 'bool':
            sh = n.args[0]
            if isinstance(sh, ast.Attribute) and sh.attr == 'shape':
                a, t = self.expr(sh.value, env)
                if t.startswith('L'):
                    return '(Np.full (Np.len %s) %s)' % (a, 'true' if f.endswith('ones') else 'false'), 'LB'
            raise Untranslatable('shape %s' % ast.unparse(sh))
        if f == 'numpy.logical_and' and len(n.args) == 2:
            a, ta = self.expr(n.args[0], env)
            b, tb = self.expr(n.args[1], env)
            if (ta, tb) == ('LB', 'LB'):
                return '(Np.andVV %s %s)' % (a, b), 'LB'
            if (ta, tb) == ('B', 'B'):
                return '(%s && %s)' % (a, b), 'B'
            raise Untranslatable('logical_and on %s, %s' % (ta, tb))
        if f == 'numpy.logical_not' and len(n.args) == 1:
            a, ta = self.expr(n.args[0], env)
            if ta == 'LB':
                return '(Np.notV %s)' % a, 'LB'
            if ta == 'B':
                return '(!%s)' % a, 'B'
            raise Untranslatable('logical_not on %s' % ta)
        if f == 'numpy.floor' and len(n.args) == 1:
            x = n.args[0]
            if isinstance(x, ast.BinOp) and isinstance(x.op, ast.Mult) and isinstance(x.right, ast.Constant) and x.right.value == 1.e6:
                a, t = self.expr(x.left, env)
                if t == 'LI':
                    return '(Np.floorMicro %s)' % a, 'LI'
                if t == 'I':
                    return '(Np.floorMicro1 %s)' % a, 'I'
            raise Untranslatable('floor of %s' % ast.unparse(x)[:60])
        if f == 'sum' and len(n.args) == 1 and isinstance(n.args[0], (ast.GeneratorExp, ast.ListComp)):
            a, t = self.listcomp(n.args[0], env)
            if t != 'LI':
                raise Untranslatable('sum of %s' % t)
            return '(Np.sum %s)' % a, 'I'
        if f == 'sum' and len(n.args) == 2 and ast.unparse(n.args[1]) == '[]' and isinstance(n.args[0], ast.ListComp):
            # sum([[a, b] for a, b in l], [])  ->  the flattened list of bounds
            lc = n.args[0]
            if len(lc.generators) == 1 and not lc.generators[0].ifs and isinstance(lc.elt, ast.List) and isinstance(lc.generators[0].target, ast.Tuple) \
                    and [ast.unparse(e) for e in lc.elt.elts] == [ast.unparse(e) for e in lc.generators[0].target.elts] and len(lc.elt.elts) == 2:
                a, t = self.iterable(lc.generators[0].iter, env)
                if t == 'LP':
                    return '(Np.flattenPairs %s)' % a, 'LI'
            raise Untranslatable('sum(…, [])')
        raise Untranslatable('call %s' % ast.unparse(n)[:80])

    def iterable(self, n, env):
        """(lean list, list type) of something iterated"""
        txt = ast.unparse(n)
        if txt == 'self' and self.spec.selfname:
            return self.spec.selfname, dict(self.spec.params)[self.spec.selfname]
        if isinstance(n, ast.Call) and ast.unparse(n.func) == 'range':
            args = [self.expr(a, env) for a in n.args]
            if any(t != 'I' for _, t in args) or len(args) not in (1, 2):
                raise Untranslatable('range')
            if len(args) == 1:
                return '(Np.range 0 %s)' % args[0][0], 'LI'
            return '(Np.range %s %s)' % (args[0][0], args[1][0]), 'LI'
        if isinstance(n, ast.Call) and ast.unparse(n.func) == 'enumerate' and len(n.args) == 1:
            a, ta = self.expr(n.args[0], env)
            if ta != 'LI':
                raise Untranslatable('enumerate over %s' % ta)
            return '(Np.enumerate %s)' % a, 'LP'
        if isinstance(n, ast.Call) and ast.unparse(n.func) == 'zip' and len(n.args) == 2:
            a, ta = self.expr(n.args[0], env)
            b, tb = self.expr(n.args[1], env)
            if (ta, tb) == ('LI', 'LI'):
                return '(List.zip %s %s)' % (a, b), 'LP'
            raise Untranslatable('zip on %s, %s' % (ta, tb))
        a, t = self.expr(n, env)
        if not isinstance(t, str) or not t.startswith('L'):
            raise Untranslatable('iteration over %s' % (t,))
        return a, t

    def binder(self, target, elem_t, env):
        """(lean binder text, env extension) for a loop / comprehension target of element type elem_t"""
        if isinstance(target, ast.Name):
            return '(%s : %s)' % (target.id, lean_type(elem_t)), {target.id: elem_t}
        if isinstance(target, ast.Tuple) and elem_t == 'P' and len(target.elts) == 2 and all(isinstance(e, ast.Name) for e in target.elts):
            a, b = target.elts[0].id, target.elts[1].id
            return '((%s, %s) : Int × Int)' % (a, b), {a: 'I', b: 'I'}
        raise Untranslatable('loop target %s over %s' % (ast.unparse(target), elem_t))

    def listcomp(self, n, env):
        if len(n.generators) != 1:
            raise Untranslatable('nested comprehension')
        g = n.generators[0]
        # the iterator pairing idiom: [(start, next(iterator)) for start in iterator] with iterator = iter(<list>)
        if isinstance(g.iter, ast.Name) and env.get(g.iter.id, (None,))[0] == 'ITER' and not g.ifs and isinstance(g.target, ast.Name) \
                and ast.unparse(n.elt) == '(%s, next(%s))' % (g.target.id, g.iter.id):
            return '(Np.pairUp %s)' % env[g.iter.id][1], 'LP'
        a, t = self.iterable(g.iter, env)
        et = ELEM[t]
        b, ext = self.binder(g.target, et, env)
        env2 = dict(env, **ext)
        cur = a
        for c in g.ifs:
            ct, tt = self.expr(c, env2)
            if tt != 'B':
                raise Untranslatable('comprehension filter of type %s' % tt)
            cur = '(%s.filter fun %s => %s)' % (cur, b, ct)
        e, te = self.expr(n.elt, env2)
        rt = LIST_OF.get(te)
        if rt is None:
            raise Untranslatable('comprehension element %s' % (te,))
        return '(%s.map fun %s => %s)' % (cur, b, e), rt

    # ---------------------------------------------------------------- statements
    def block(self, stmts, env, tail, loop, ind):
        """Lean term for the statements followed by `tail(env)`; `loop` = (state names, has_brk) inside a loop body"""
        pad = '  ' * ind
        if not stmts:
            return pad + tail(env)
        s, rest = stmts[0], stmts[1:]
        nxt = lambda e: self.block(rest, e, tail, loop, ind)   # noqa
        if isinstance(s, ast.Expr) and isinstance(s.value, ast.Constant):
            return nxt(env)
        if isinstance(s, ast.Expr) and isinstance(s.value, ast.Call):
            f = ast.unparse(s.value.func)
            if f in self.spec.effect:
                if loop is not None:
                    raise Untranslatable('effect call inside a loop')
                v, t = self.expr(s.value.args[self.spec.effect[f]], env)
                self.set_rtype(t)
                if rest and not self.spec.drop_after_effect:
                    raise Untranslatable('statements after the effect call')
                return pad + v
            if f.startswith(self.spec.skip):
                return nxt(env)
            fn_ = s.value.func
            if isinstance(fn_, ast.Attribute) and fn_.attr == 'append' and isinstance(fn_.value, ast.Name) and len(s.value.args) == 1 and not s.value.keywords:
                x = fn_.value.id
                tx = env.get(x)
                v, tv = self.expr(s.value.args[0], env)
                if tx is None or ELEM.get(tx) != tv:
                    raise Untranslatable('append of %s to %s' % (tv, tx))
                return '%slet %s : %s := %s ++ [%s]\n' % (pad, x, lean_type(tx), x, v) + nxt(env)
            raise Untranslatable('call statement %s' % ast.unparse(s)[:80])
        if isinstance(s, ast.Assert):
            self.notes.append('precondition: %s' % ast.unparse(s.test))
            return nxt(env)
        if isinstance(s, ast.Assign) and len(s.targets) == 1:
            t = s.targets[0]
            if isinstance(t, ast.Name):
                # iterator = iter(<list>) : remembered for the pairing idiom
                if isinstance(s.value, ast.Call) and ast.unparse(s.value.func) == 'iter' and len(s.value.args) == 1:
                    a, ta = self.expr(s.value.args[0], env)
                    if ta != 'LI':
                        raise Untranslatable('iter of %s' % ta)
                    return nxt(dict(env, **{t.id: ('ITER', a)}))
                if isinstance(s.value, ast.List) and not s.value.elts:
                    if t.id not in self.spec.local_types:
                        raise Untranslatable('empty list %s of undeclared type' % t.id)
                    tv = self.spec.local_types[t.id]
                    return '%slet %s : %s := []\n' % (pad, t.id, lean_type(tv)) + nxt(dict(env, **{t.id: tv}))
                v, tv = self.expr(s.value, env)
                return '%slet %s : %s := %s\n' % (pad, t.id, lean_type(tv), v) + nxt(dict(env, **{t.id: tv}))
            if isinstance(t, ast.Tuple) and isinstance(s.value, ast.Tuple) and len(t.elts) == len(s.value.elts) and all(isinstance(e, ast.Name) for e in t.elts):
                vals = [self.expr(v, env) for v in s.value.elts]
                names = [e.id for e in t.elts]
                out = '%slet (%s) := (%s)\n' % (pad, ', '.join(names), ', '.join(v for v, _ in vals))
                return out + nxt(dict(env, **{n_: tv for n_, (_, tv) in zip(names, vals)}))
            if isinstance(t, ast.Subscript) and isinstance(t.value, ast.Name):
                x = t.value.id
                if x not in env:
                    raise Untranslatable('assignment into unknown %s' % x)
                tx = env[x]
                i, ti = self.expr(t.slice, env)
                v, tv = self.expr(s.value, env)
                if ti == 'I' and (tx, tv) in (('LI', 'I'), ('LB', 'B')):
                    new = 'Np.setI %s %s %s' % (x, i, v)
                elif (tx, ti, tv) == ('LI', 'LI', 'LI'):
                    new = 'Np.put %s %s %s' % (x, i, v)
                elif ti == 'LB' and (tx, tv) in (('LI', 'I'), ('LB', 'B')):
                    new = 'Np.putMask %s %s %s' % (x, i, v)
                else:
                    raise Untranslatable('indexed assignment %s[%s] = %s' % (tx, ti, tv))
                return '%slet %s : %s := %s\n' % (pad, x, lean_type(tx), new) + nxt(env)
            raise Untranslatable('assignment %s' % ast.unparse(s)[:80])
        if isinstance(s, ast.AugAssign) and isinstance(s.target, ast.Name):
            n2 = ast.BinOp(left=ast.Name(id=s.target.id, ctx=ast.Load()), op=s.op, right=s.value)
            v, tv = self.expr(n2, env)
            if tv != env.get(s.target.id):
                raise Untranslatable('augmented assignment changes the type of %s' % s.target.id)
            return '%slet %s : %s := %s\n' % (pad, s.target.id, lean_type(tv), v) + nxt(env)
        if isinstance(s, ast.Return):
            if loop is not None:
                raise Untranslatable('return inside a loop')
            if s.value is None:
                if self.spec.bare_return is None:
                    raise Untranslatable('bare return')
                txt, t = self.spec.bare_return
                self.set_rtype(t)
                return pad + txt
            v, t = self.expr(s.value, env)
            self.set_rtype(t)
            return pad + v
        if isinstance(s, ast.Break):
            if loop is None or not loop[1]:
                raise Untranslatable('break outside a loop')
            return pad + self.state_tuple(loop[0], 'true')
        if isinstance(s, ast.Continue):
            if loop is None:
                raise Untranslatable('continue outside a loop')
            return pad + self.state_tuple(loop[0], 'false' if loop[1] else None)
        if isinstance(s, ast.If):
            c, tc = self.expr(s.test, env)
            if tc != 'B':
                raise Untranslatable('condition of type %s: %s' % (tc, ast.unparse(s.test)[:60]))
            if _escapes(s.body) or _escapes(s.orelse):
                a = self.block(list(s.body) + rest, env, tail, loop, ind + 1)
                b = self.block(list(s.orelse) + rest, env, tail, loop, ind + 1)
                return '%sif %s then (\n%s)\n%selse (\n%s)' % (pad, c, a, pad, b)
            # a plain conditional update of some variables
            names = [n_ for n_ in _assigned(list(s.body) + list(s.orelse)) if n_ in env]
            if not names:
                raise Untranslatable('if without effect')
            tup = lambda e: self.tuple_of(names)   # noqa
            a = self.block(list(s.body), env, tup, None if loop is None else (loop[0], False), ind + 1)
            b = self.block(list(s.orelse), env, tup, None if loop is None else (loop[0], False), ind + 1)
            return '%slet %s := if %s then (\n%s)\n%s  else (\n%s)\n' % (pad, self.tuple_of(names), c, a, pad, b) + nxt(env)
        if isinstance(s, ast.For) and not s.orelse:
            it, tit = self.iterable(s.iter, env)
            et = ELEM[tit]
            b, ext = self.binder(s.target, et, env)
            state = [n_ for n_ in _assigned(s.body) if n_ in env]
            if not state:
                raise Untranslatable('loop without state')
            brk = _has_break(s.body)
            st_t = ' × '.join(('(%s)' % lean_type(env[n_])) for n_ in state) + (' × Bool' if brk else '')
            inner_env = dict(env, **ext)
            body = self.block(list(s.body), inner_env, lambda e: self.state_tuple(state, 'false' if brk else None), (state, brk), ind + 2)
            pat = self.state_tuple(state, 'brk' if brk else None)
            guard = '%s    if brk then st else\n' % pad if brk else ''
            init = self.state_tuple(state, 'false' if brk else None)
            out = '%slet %s := Np.loop %s %s fun (st : %s) %s =>\n%s    let %s := st\n%s%s\n' % (
                pad, self.state_tuple(state, '_' if brk else None), init, it, st_t, b, pad, pat, guard, body)
            return out + nxt(env)
        raise Untranslatable('statement %s' % ast.unparse(s)[:80])

    def tuple_of(self, names):
        return names[0] if len(names) == 1 else '(%s)' % ', '.join(names)

    def state_tuple(self, names, brk):
        items = list(names) + ([brk] if brk is not None else [])
        return items[0] if len(items) == 1 else '(%s)' % ', '.join(items)

    def set_rtype(self, t):
        if self.rtype is None:
            self.rtype = t
        elif self.rtype != t:
            raise Untranslatable('return types differ: %s, %s' % (self.rtype, t))

    def function(self):
        sp = self.spec
        src = textwrap.dedent(inspect.getsource(sp.obj()))
        fn = ast.parse(src).body[0]
        env = {n_: t for n_, t in sp.params}

        def no_return(e):
            raise Untranslatable('the function ends without a result')
        body = self.block(list(fn.body), env, no_return, None, 1)
        sig = ' '.join('(%s : %s)' % (n_, lean_type(t)) for n_, t in sp.params)
        doc = '/-- `%s.%s`%s%s -/\n' % (sp.module, sp.qual, (' — ' + sp.note) if sp.note else '', ''.join('; ' + x for x in self.notes))
        return doc + 'def %s %s : %s :=\n%s\n' % (sp.lean, sig, lean_type(self.rtype), body)


SPECS = [
    ImpSpec('ixpeobssim.binning.misc', 'xEventBinningLC._bin_gti', 'bin_gti', [('edge_min', 'I'), ('edge_max', 'I'), ('gti_starts', 'LI'), ('gti_stops', 'LI')],
            note='C18: observation time of one light-curve bin, with the break / continue structure of the source'),
    ImpSpec('ixpeobssim.evt.event', 'xEventList.apply_dead_time', 'apply_dead_time', [('time', 'LI'), ('deadtime', 'I')],
            bind={'self.time()': 'time', 'self.num_events()': None}, effect={'self.trim': 0}, bare_return=('[]', 'LB'),
            note='C04: the mask handed to `self.trim` (the events kept by the non-paralysable dead-time veto); an empty list is left alone'),
    ImpSpec('ixpeobssim.evt.event', 'xEventList.fill_livetime', 'fill_livetime', [('start_met', 'I'), ('start_mets', 'LI'), ('time', 'LI'), ('deadtime', 'I')],
            bind={'gti_list.start_met': 'start_met', 'numpy.array(gti_list.start_mets())': 'start_mets', 'self.time()': 'time'},
            effect={'self._set_column': 1},
            note='C05: the LIVETIME column in µs; `gti_list.start_met`, `gti_list.start_mets()` and `self.time()` are the parameters'),
    ImpSpec('ixpeobssim.evt.gti', 'xGTIList.filter_event_times', 'filter_event_times', [('gtis', 'LP'), ('time_', 'LI')], selfname='gtis',
            note='C18 / C03: (times kept, mask)'),
    ImpSpec('ixpeobssim.evt.gti', 'xGTIList.total_good_time', 'total_good_time', [('gtis', 'LP')], selfname='gtis'),
    ImpSpec('ixpeobssim.evt.gti', 'xGTIList.all_mets', 'all_mets', [('gtis', 'LP')], selfname='gtis'),
    ImpSpec('ixpeobssim.evt.gti', 'xGTIList.complement', 'gti_complement', [('gtis', 'LP')], selfname='gtis', bind={'self.all_mets()': None},
            note='C18: the intervals between consecutive GTIs'),
    # --- the observation timeline (instrument/traj.py, utils/time_.py): epochs are records with the field names of the source
    ImpSpec('ixpeobssim.utils.time_', 'xTimeInterval.bounds', 'interval_bounds', [('self', 'E')]),
    ImpSpec('ixpeobssim.utils.time_', 'xTimeInterval.duration.fget', 'interval_duration', [('self', 'E')]),
    ImpSpec('ixpeobssim.instrument.traj', 'xTimelineEpoch.shrink', 'epoch_shrink', [('self', 'E'), ('start_padding', 'I'), ('stop_padding', 'I')],
            ctors={'self.__class__': ('Np.Epoch.mk', 'E')}, note='C18: the bounds moved inwards by the paddings, flags inherited'),
    ImpSpec('ixpeobssim.instrument.traj', 'xTimelineEpoch.isgti', 'epoch_isgti', [('self', 'E')]),
    ImpSpec('ixpeobssim.instrument.traj', 'xTimelineEpoch.isocti', 'epoch_isocti', [('self', 'E')]),
    ImpSpec('ixpeobssim.instrument.traj', 'xObservationTimeline._bisect_odd', 'bisect_odd', [('array_', 'LI'), ('value', 'I')]),
    ImpSpec('ixpeobssim.instrument.traj', 'xObservationTimeline._calculate_epochs', 'calculate_epochs', [('mets', 'LI'), ('saa_mets', 'LI'), ('occult_mets', 'LI')],
            calls={'xObservationTimeline._bisect_odd': ('bisect_odd', 'B', [])}, ctors={'xTimelineEpoch': ('Np.Epoch.mk', 'E')}, local_types={'epochs': 'LE'},
            note='C18: one epoch per pair of consecutive marks, flags by bisection of the SAA / occultation marks at the epoch centre'),
    ImpSpec('ixpeobssim.instrument.traj', 'xObservationTimeline.filter_epochs', 'filter_epochs',
            [('epochs', 'LE'), ('min_duration', 'I'), ('start_padding', 'I'), ('stop_padding', 'I')], bind={'self.epochs': 'epochs'},
            methods={('E', 'duration'): ('interval_duration', 'I', True)}),
    ImpSpec('ixpeobssim.instrument.traj', 'xObservationTimeline.gti_list', 'timeline_gti_list',
            [('epochs', 'LE'), ('min_duration', 'I'), ('start_padding', 'I'), ('stop_padding', 'I')],
            calls={'self.filter_epochs': ('filter_epochs', 'LE', ['epochs'])}, star_ctor={'xGTIList': True},
            methods={('E', 'shrink'): ('epoch_shrink', 'E', False), ('E', 'bounds'): ('interval_bounds', 'P', False), ('E', 'isgti'): ('epoch_isgti', 'B', False)},
            note='C18: the good time intervals of a timeline'),
    ImpSpec('ixpeobssim.instrument.traj', 'xObservationTimeline.octi_list', 'timeline_octi_list',
            [('epochs', 'LE'), ('min_duration', 'I'), ('start_padding', 'I'), ('stop_padding', 'I')],
            calls={'self.filter_epochs': ('filter_epochs', 'LE', ['epochs'])},
            methods={('E', 'shrink'): ('epoch_shrink', 'E', False), ('E', 'bounds'): ('interval_bounds', 'P', False), ('E', 'isocti'): ('epoch_isocti', 'B', False)},
            note='C18: the on-orbit calibration intervals of a timeline'),
]


def translate(sp, done):
    """`done`: lean names already generated (a `bind` to None means: the call denotes the generated function of that name applied to `self`)"""
    sp = sp
    tr = Imp(sp)
    # late binding of method calls that denote other generated definitions
    for k, v in list(sp.bind.items()):
        if v is None:
            if k == 'self.num_events()':
                sp.bind.pop(k)
            elif k == 'self.all_mets()':
                sp.bind.pop(k)
    orig_expr = tr.expr

    def expr(n, env):
        txt = ast.unparse(n)
        if txt == 'self.num_events()':
            return '(Np.len time)', 'I'
        if txt == 'self.all_mets()' and 'all_mets' in done:
            return '(all_mets %s)' % sp.selfname, 'LI'
        return orig_expr(n, env)
    tr.expr = expr
    return tr.function(), tr.notes


def lean_file(golden):
    out = ['import IxpeVerif.Model.Np', '/-! Generated by translator/imptrans.py from the /repo working tree — do not edit.',
           'Loops and numpy array code of the discrete bookkeeping, statement by statement, on `Int` ticks (see Model/Np.lean). -/',
           'set_option linter.unusedVariables false', 'namespace Np', '/-- a `for` loop: the state after the body has run for every element, in order -/',
           'def loop {σ α : Type} (init : σ) (l : List α) (f : σ → α → σ) : σ := l.foldl f init', 'end Np', '', 'namespace Gen.Imp', '']
    status = {}
    done = []
    for sp in SPECS:
        key = 'imp:' + sp.lean
        try:
            txt, notes = translate(sp, done)
            status[sp.lean] = dict(tie='translated', differs_from_golden=golden.get(key) not in (None, txt), notes=notes, qual=sp.qual, module=sp.module)
            golden[key] = txt
        except Exception as e:
            txt = golden.get(key)
            if txt is None:
                raise
            status[sp.lean] = dict(tie='correspondence-only', reason='%s: %s' % (type(e).__name__, e), qual=sp.qual, module=sp.module)
        done.append(sp.lean)
        out.append(txt)
    out += ['end Gen.Imp', '']
    return '\n'.join(out), status


if __name__ == '__main__':
    import sys
    g = {}
    txt, st = lean_file(g)
    print(txt)
    print(st, file=sys.stderr)
