"""Translator of the higher-order glue that builds the count spectrum (srcmodel/spectrum.py, C03): functions that take callables and return
`lambda E, t: …` closures.

  xSourceSpectrum._pdf(spectrum, column_density, redshift)      the source spectrum at the source-frame energy, times the transmission of the
                                                                interstellar medium when a column density is given
  xCountSpectrum.__init__                                       `conv = lambda E, t: scale_factor * aeff(E / (1. + redshift)) * spectrum(E, t)` and the
                                                                arguments with which it reaches `xSourceSpectrum.__init__` → `_pdf`

Reading: a `lambda` is a Lean `fun`; a call of a callable parameter or of a local bound to a lambda is an application; `if c: return f` followed by
statements is `if c then f else …`; `ism = xInterstellarAbsorptionModel(); trans = ism.transmission_factor(column_density)` binds the parameter
`trans` (the tabulated transmission, outside the translated subset: checked by the oracle) — the two statements must read exactly like that.
What is checked besides: the positional arguments of `xSourceSpectrum.__init__(self, E, t, conv, column_density, redshift, kx, ky)` in
`xCountSpectrum.__init__`, and `args = (E, t, self._pdf(spectrum, column_density, redshift), None, kx, ky)` in `xSourceSpectrum.__init__`: the
function that is tabulated is `_pdf(conv, column_density, redshift)`.  `Props/C03.lean` proves the composition equal to `Rates.countSpectrum`.
"""
import ast
import inspect
import importlib
import textwrap

from py2lean import Untranslatable

MODULE = 'ixpeobssim.srcmodel.spectrum'


def real(v):
    r = repr(float(v))
    if 'e' in r or 'inf' in r or 'nan' in r:
        raise Untranslatable('constant %r' % v)
    return '(%s : α)' % r


class L:
    def __init__(self, scalars, funs1, funs2):
        self.scalars, self.funs1, self.funs2 = set(scalars), set(funs1), set(funs2)     # names: α, α → α, α → α → α
        self.lines = []

    def ex(self, n, bound=()):
        if isinstance(n, ast.Constant) and isinstance(n.value, (int, float)) and not isinstance(n.value, bool):
            return real(n.value)
        if isinstance(n, ast.Name):
            if n.id in bound or n.id in self.scalars:
                return n.id
            raise Untranslatable('name %s' % n.id)
        if isinstance(n, ast.UnaryOp) and isinstance(n.op, ast.USub):
            return '(-%s)' % self.ex(n.operand, bound)
        if isinstance(n, ast.BinOp):
            op = {ast.Mult: '*', ast.Div: '/', ast.Add: '+', ast.Sub: '-'}.get(type(n.op))
            if op is None:
                raise Untranslatable('operator in %s' % ast.unparse(n))
            return '(%s %s %s)' % (self.ex(n.left, bound), op, self.ex(n.right, bound))
        if isinstance(n, ast.Call) and isinstance(n.func, ast.Name) and not n.keywords:
            f = n.func.id
            if f in self.funs1 and len(n.args) == 1:
                return '(%s %s)' % (f, self.ex(n.args[0], bound))
            if f in self.funs2 and len(n.args) == 2:
                return '(%s %s %s)' % (f, self.ex(n.args[0], bound), self.ex(n.args[1], bound))
        raise Untranslatable('expression %s' % ast.unparse(n))

    def lam(self, n):
        if not (isinstance(n, ast.Lambda) and [a.arg for a in n.args.args] == ['E', 't'] and not n.args.defaults):
            raise Untranslatable('not a lambda E, t: %s' % ast.unparse(n))
        return '(fun (E t : α) => %s)' % self.ex(n.body, bound=('E', 't'))


def _func(cls, name):
    f = inspect.getattr_static(cls, name)
    f = getattr(f, '__func__', f)
    return ast.parse(textwrap.dedent(inspect.getsource(f))).body[0]


def translate():
    mod = importlib.import_module(MODULE)
    out, notes = [], []
    # ---- xSourceSpectrum._pdf
    fn = _func(mod.xSourceSpectrum, '_pdf')
    if [a.arg for a in fn.args.args] != ['spectrum', 'column_density', 'redshift']:
        raise Untranslatable('_pdf signature')
    body = [s for s in fn.body if not (isinstance(s, ast.Expr) and isinstance(s.value, ast.Constant))]
    tr = L(['column_density', 'redshift'], ['trans'], ['spectrum'])
    if not (len(body) == 5 and isinstance(body[0], ast.Assign) and ast.unparse(body[0].targets[0]) == 'pdf'):
        raise Untranslatable('shape of _pdf')
    pdf = tr.lam(body[0].value)
    tr.funs2.add('pdf')
    s1 = body[1]
    if not (isinstance(s1, ast.If) and not s1.orelse and len(s1.body) == 1 and isinstance(s1.body[0], ast.Return) and ast.unparse(s1.body[0].value) == 'pdf'
            and isinstance(s1.test, ast.Compare) and isinstance(s1.test.ops[0], ast.LtE) and ast.unparse(s1.test.left) == 'column_density'):
        raise Untranslatable('the unabsorbed branch of _pdf')
    bound = tr.ex(s1.test.comparators[0])
    if ast.unparse(body[2]) != 'ism = xInterstellarAbsorptionModel()' or ast.unparse(body[3]) != 'trans = ism.transmission_factor(column_density)':
        raise Untranslatable('the transmission factor of _pdf: %s / %s' % (ast.unparse(body[2]), ast.unparse(body[3])))
    notes.append('`trans` = xInterstellarAbsorptionModel().transmission_factor(column_density): a parameter')
    if not isinstance(body[4], ast.Return):
        raise Untranslatable('last statement of _pdf')
    absorbed = tr.lam(body[4].value)
    out += ['/-- `xSourceSpectrum._pdf`: the function that is tabulated (`trans` is the transmission of the interstellar medium for the given column density) -/',
            'def source_pdf {α : Type} [RealLike α] (spectrum : α → α → α) (trans : α → α) (column_density redshift : α) : α → α → α :=',
            '  let pdf : α → α → α := %s' % pdf,
            '  if column_density ≤ %s then pdf else %s' % (bound, absorbed), '']
    # ---- xSourceSpectrum.__init__: what is handed to the tabulation
    fn = _func(mod.xSourceSpectrum, '__init__')
    if [a.arg for a in fn.args.args] != ['self', 'E', 't', 'spectrum', 'column_density', 'redshift', 'kx', 'ky']:
        raise Untranslatable('xSourceSpectrum.__init__ signature')
    body = [s for s in fn.body if not (isinstance(s, ast.Expr) and isinstance(s.value, ast.Constant))]
    if ast.unparse(body[0]) != 'args = (E, t, self._pdf(spectrum, column_density, redshift), None, kx, ky)':
        raise Untranslatable('xSourceSpectrum.__init__: %s' % ast.unparse(body[0]))
    if not any(ast.unparse(s) == 'xUnivariateAuxGenerator.__init__(self, *args, **fmt)' for s in body):
        raise Untranslatable('xSourceSpectrum.__init__ does not hand args to the generator')
    # ---- xCountSpectrum.__init__
    fn = _func(mod.xCountSpectrum, '__init__')
    names = [a.arg for a in fn.args.args]
    if names[:7] != ['self', 'spectrum', 'aeff', 't', 'column_density', 'redshift', 'scale_factor']:
        raise Untranslatable('xCountSpectrum.__init__ signature %s' % names)
    conv, call = None, None
    for s in ast.walk(fn):
        if isinstance(s, ast.Assign) and ast.unparse(s.targets[0]) == 'conv':
            if conv is not None:
                raise Untranslatable('conv bound twice')
            conv = s.value
        if isinstance(s, ast.Call) and ast.unparse(s.func) == 'xSourceSpectrum.__init__':
            call = s
    if conv is None or call is None:
        raise Untranslatable('xCountSpectrum.__init__: conv / parent constructor not found')
    tr2 = L(['scale_factor', 'redshift'], ['aeff'], ['spectrum'])
    convtxt = tr2.lam(conv)
    args = [ast.unparse(a) for a in call.args]
    if args != ['self', 'E', 't', 'conv', 'column_density', 'redshift', 'kx', 'ky'] or call.keywords:
        raise Untranslatable('arguments of xSourceSpectrum.__init__: %s' % args)
    out += ['/-- the `conv` closure of `xCountSpectrum.__init__` -/',
            'def count_conv {α : Type} [RealLike α] (spectrum : α → α → α) (aeff : α → α) (scale_factor redshift : α) : α → α → α :=',
            '  %s' % convtxt, '',
            '/-- what `xCountSpectrum.__init__` tabulates: `xSourceSpectrum.__init__(self, E, t, conv, column_density, redshift, …)` → `_pdf(conv, column_density, redshift)` -/',
            'def count_pdf {α : Type} [RealLike α] (spectrum : α → α → α) (aeff trans : α → α) (column_density redshift scale_factor : α) : α → α → α :=',
            '  source_pdf (count_conv spectrum aeff scale_factor redshift) trans column_density redshift', '']
    # ---- the hit-or-miss vignetting (evt/event.py): one event
    ev = importlib.import_module('ixpeobssim.evt.event')
    units = importlib.import_module('ixpeobssim.utils.units_')
    fn = ast.parse(textwrap.dedent(inspect.getsource(units.degrees_to_arcmin))).body[0]
    body = [s for s in fn.body if not (isinstance(s, ast.Expr) and isinstance(s.value, ast.Constant))]
    if [a.arg for a in fn.args.args] != ['val'] or len(body) != 1 or not isinstance(body[0], ast.Return):
        raise Untranslatable('degrees_to_arcmin')
    d2a = L(['val'], [], []).ex(body[0].value)
    fn = _func(ev.xBaseEventList, 'apply_vignetting_base')
    if [a.arg for a in fn.args.args] != ['self', 'ra', 'dec', 'energy', 'vign', 'ra_pnt', 'dec_pnt']:
        raise Untranslatable('apply_vignetting_base signature')
    body = [ast.unparse(s) for s in fn.body if not (isinstance(s, ast.Expr) and isinstance(s.value, ast.Constant)) and not ast.unparse(s).startswith('logger.')]
    want = ['num_events = self.num_events()', 'separation = angular_separation(ra, dec, ra_pnt, dec_pnt)', 'separation = degrees_to_arcmin(separation)',
            'vignetting = vign(energy, separation)', 'self.trim(numpy.random.random(vignetting.shape) <= vignetting)',
            'frac = 100.0 * self.num_events() / float(num_events)']
    if body != want:
        raise Untranslatable('apply_vignetting_base reads %s' % [b for b in body if b not in want][:2])
    fn = _func(ev.xEventList, 'apply_vignetting')
    body = [ast.unparse(s) for s in fn.body if not (isinstance(s, ast.Expr) and isinstance(s.value, ast.Constant))]
    body = [b.replace('(ra, dec) =', 'ra, dec =') for b in body]
    if body != ['ra, dec = self.mc_sky_coordinates()', 'energy = self.mc_energy()', 'self.apply_vignetting_base(ra, dec, energy, vign, ra_pnt, dec_pnt)']:
        raise Untranslatable('apply_vignetting reads %s' % body)
    notes.append('`sep` = angular_separation(ra, dec, ra_pnt, dec_pnt) of the true (Monte Carlo) position, in degrees: a parameter; `u` the uniform variate of the event')
    out += ['/-- `degrees_to_arcmin` -/', 'def degrees_to_arcmin {α : Type} [RealLike α] (val : α) : α := %s' % d2a, '',
            '/-- `xEventList.apply_vignetting` → `apply_vignetting_base`, one event: kept iff its uniform variate does not exceed the vignetting at its true energy and '
            'off-axis angle (in arcmin) -/',
            'def vign_keep {α : Type} [RealLike α] (vign : α → α → α) (energy sep u : α) : Bool :=',
            '  let separation := degrees_to_arcmin sep',
            '  let vignetting := vign energy separation',
            '  decide (u ≤ vignetting)', '']
    return '\n'.join(out), notes


NAMES = ['rates_source_pdf', 'rates_count_conv', 'rates_count_pdf', 'rates_vign_keep']


def lean_file(golden):
    out = ['import IxpeVerif.Num', '/-! Generated by translator/lamtrans.py from the /repo working tree — do not edit. -/', 'set_option linter.unusedVariables false',
           'namespace Gen.Rates', '']
    status = {}
    key = 'rates:all'
    try:
        txt, notes = translate()
        for n in NAMES:
            status[n] = dict(tie='translated', differs_from_golden=golden.get(key) not in (None, txt), notes=notes, qual='xSourceSpectrum._pdf / xCountSpectrum.__init__', module=MODULE)
        golden[key] = txt
    except Exception as e:
        txt = golden.get(key)
        if txt is None:
            raise
        for n in NAMES:
            status[n] = dict(tie='correspondence-only', reason='%s: %s' % (type(e).__name__, e), qual='xSourceSpectrum._pdf / xCountSpectrum.__init__', module=MODULE)
    out += [txt, 'end Gen.Rates', '']
    return '\n'.join(out), status


# ---------------------------------------------------------------------------------------------------------------------------------------
# C16: the image sampler (srcmodel/img.py): `xFITSImage._build_cdf` and `rvs_coordinates`, read for one event
IMG_WANT = [
    'u = numpy.random.rand(size)',
    'pixel = numpy.searchsorted(self.cdf, u)',
    'row, col = numpy.unravel_index(pixel, self.data.shape)',
    'pixel_coords = numpy.vstack((col, row)).transpose()',
    'world_coords = self.wcs.wcs_pix2world(pixel_coords, 0)',
    'ra, dec = (world_coords[:, 0], world_coords[:, 1])',
]


def translate_img():
    img = importlib.import_module('ixpeobssim.srcmodel.img')
    notes = []
    fn = _func(img.xFITSImage, '_build_cdf')
    body = [ast.unparse(s) for s in fn.body if not (isinstance(s, ast.Expr) and isinstance(s.value, ast.Constant))]
    if body != ['cdf = numpy.cumsum(self.data.ravel().astype(float))', 'cdf /= cdf[-1]', 'return cdf']:
        raise Untranslatable('_build_cdf reads %s' % body)
    fn = _func(img.xFITSImage, '__init__')
    body = [ast.unparse(s) for s in fn.body if not (isinstance(s, ast.Expr) and isinstance(s.value, ast.Constant))]
    if body != ['xFITSImageBase.__init__(self, file_path)', 'self.cdf = self._build_cdf()']:
        raise Untranslatable('xFITSImage.__init__ reads %s' % body)
    fn = _func(img.xFITSImage, 'rvs_coordinates')
    if [a.arg for a in fn.args.args] != ['self', 'size', 'randomize'] or [ast.unparse(d) for d in fn.args.defaults] != ['1', 'True']:
        raise Untranslatable('rvs_coordinates signature')
    stmts = [s for s in fn.body if not (isinstance(s, ast.Expr) and isinstance(s.value, ast.Constant))]
    head = [ast.unparse(s).replace('(row, col) =', 'row, col =').replace('(ra, dec) =', 'ra, dec =') for s in stmts[:6]]
    if head != IMG_WANT:
        raise Untranslatable('rvs_coordinates reads %s' % [h for h in head if h not in IMG_WANT][:2])
    if len(stmts) != 8 or not isinstance(stmts[6], ast.If) or ast.unparse(stmts[6].test) != 'randomize' or stmts[6].orelse or ast.unparse(stmts[7]) not in ('return (ra, dec)', 'return ra, dec'):
        raise Untranslatable('tail of rvs_coordinates')
    tr = L(['cdelt1', 'cdelt2', 'delta_ra', 'delta_dec', 'ra', 'dec'], [], [])
    lines = []
    deltas = {}
    for s in stmts[6].body:
        txt = ast.unparse(s)
        if isinstance(s, ast.Assign) and ast.unparse(s.targets[0]) in ('delta_ra', 'delta_dec'):
            v = ast.unparse(s.value).replace("self.primary_hdu.header['CDELT1']", 'cdelt1').replace("self.primary_hdu.header['CDELT2']", 'cdelt2')
            lines.append('    let %s : α := %s' % (ast.unparse(s.targets[0]), tr.ex(ast.parse(v, mode='eval').body)))
        elif isinstance(s, ast.AugAssign) and isinstance(s.op, ast.Add) and ast.unparse(s.target) in ('ra', 'dec'):
            c = s.value
            if not (isinstance(c, ast.Call) and ast.unparse(c.func) == 'numpy.random.uniform' and len(c.args) == 3 and ast.unparse(c.args[2]) == 'size' and not c.keywords):
                raise Untranslatable('randomisation: %s' % txt)
            lo, hi = tr.ex(c.args[0]), tr.ex(c.args[1])
            uu = 'u1' if ast.unparse(s.target) == 'ra' else 'u2'
            if uu in deltas:
                raise Untranslatable('coordinate randomised twice')
            deltas[uu] = True
            lines.append('    let %s : α := %s + (%s + (%s - %s) * %s)' % (ast.unparse(s.target), ast.unparse(s.target), lo, hi, lo, uu))
        else:
            raise Untranslatable('randomisation: %s' % txt)
    if sorted(deltas) != ['u1', 'u2'] or 'u1' not in lines[-2] or 'u2' not in lines[-1]:
        raise Untranslatable('order of the two uniform draws')
    notes.append('u, u1, u2: the three uniform variates of the event, in the order they are drawn (numpy.random.uniform(a, b) = a + (b − a)·u); pix2world: astropy WCS, a parameter')
    out = ['/-- `numpy.searchsorted(a, v)` (side left) -/',
           'def searchLeft {α : Type} [RealLike α] (a : List α) (v : α) : Nat := (a.takeWhile (fun x => decide (x < v))).length',
           '/-- `numpy.cumsum` -/',
           'def cumsum {α : Type} [RealLike α] : α → List α → List α', '  | _, [] => []', '  | acc, x :: xs => (acc + x) :: cumsum (acc + x) xs', '',
           '/-- `xFITSImage._build_cdf` on the flattened (row-major) image -/',
           'def build_cdf {α : Type} [RealLike α] (data : List α) : List α :=',
           '  let cdf := cumsum (0.0 : α) data',
           '  cdf.map fun x => x / (cdf.getLast?.getD (0.0 : α))', '',
           '/-- `xFITSImage.rvs_coordinates`, one event -/',
           'def rvs_coordinates {α : Type} [RealLike α] (cdf : List α) (nrows ncols : Nat) (pix2world : Nat → Nat → α × α) (cdelt1 cdelt2 : α) (randomize : Bool) (u u1 u2 : α) : α × α :=',
           '  let pixel := searchLeft cdf u',
           '  let (row, col) := (pixel / ncols, pixel % ncols)      -- numpy.unravel_index(pixel, (nrows, ncols))',
           '  let (ra, dec) := pix2world col row                     -- vstack((col, row)).T through wcs_pix2world(·, 0); columns 0 and 1',
           '  if randomize then'] + lines + ['    (ra, dec)', '  else (ra, dec)', '']
    return '\n'.join(out), notes


IMG_NAMES = ['img_build_cdf', 'img_rvs_coordinates']


def lean_file_img(golden):
    out = ['import IxpeVerif.Num', '/-! Generated by translator/lamtrans.py (image sampler) from the /repo working tree — do not edit. -/', 'set_option linter.unusedVariables false',
           'namespace Gen.Img', '']
    status = {}
    key = 'img:all'
    try:
        txt, notes = translate_img()
        for n in IMG_NAMES:
            status[n] = dict(tie='translated', differs_from_golden=golden.get(key) not in (None, txt), notes=notes, qual='xFITSImage._build_cdf / rvs_coordinates', module='ixpeobssim.srcmodel.img')
        golden[key] = txt
    except Exception as e:
        txt = golden.get(key)
        if txt is None:
            raise
        for n in IMG_NAMES:
            status[n] = dict(tie='correspondence-only', reason='%s: %s' % (type(e).__name__, e), qual='xFITSImage._build_cdf / rvs_coordinates', module='ixpeobssim.srcmodel.img')
    out += [txt, 'end Gen.Img', '']
    return '\n'.join(out), status


if __name__ == '__main__':
    import sys
    txt, st = lean_file({})
    print(txt)
    print(st, file=sys.stderr)
    txt, st = lean_file_img({})
    print(txt)
    print(st, file=sys.stderr)
