"""Translator for the *selection-mask* methods of xEventSelect (C09): boolean masks built from optional bounds.

Subset (anything else raises Untranslatable → golden fallback, like py2lean):
  mask = numpy.ones(<n>, 'bool')                       ->  true
  a, b = self.get('x'), self.get('y')  /  a = self.get('x')     ->  optional parameters x, y  (None = not given)
  if a is not None: mask *= (<column> <op> a)          ->  match a with | some a => mask && decide (…) | none => mask
  if self.get('flag'): mask = numpy.logical_not(mask)  ->  if flag then !mask else mask
  return mask
<column> is a call listed in `columns` (e.g. self.event_file.time_data()) and stands for the value of one row.
The definitions are polymorphic in any type with decidable < and ≤: instantiated at the order-preserving integer keys of the floats
they are compared with the hand-written model (Sel.*) and run by the driver.
"""
import ast
import inspect
import importlib
import textwrap

from py2lean import Untranslatable


class MaskSpec:
    def __init__(self, module, qual, lean, columns, options, flags):
        self.module, self.qual, self.lean = module, qual, lean
        self.columns = dict(columns)      # call text -> row parameter name
        self.options = list(options)      # names of the optional bounds, in signature order
        self.flags = list(flags)          # names of the boolean options, in signature order

    def obj(self):
        o = importlib.import_module(self.module)
        for part in self.qual.split('.'):
            o = getattr(o, part)
        return o


def _get_name(n):
    """self.get('x') -> 'x'"""
    if isinstance(n, ast.Call) and ast.unparse(n.func) == 'self.get' and len(n.args) == 1 and isinstance(n.args[0], ast.Constant):
        return n.args[0].value
    return None


def translate(spec):
    src = textwrap.dedent(inspect.getsource(spec.obj()))
    fn = ast.parse(src).body[0]
    env = {}            # python local name -> option name
    used_cols, lines = [], []
    have_mask = False
    OPS = {ast.GtE: lambda c, b: '%s ≤ %s' % (b, c), ast.Gt: lambda c, b: '%s < %s' % (b, c), ast.Lt: lambda c, b: '%s < %s' % (c, b), ast.LtE: lambda c, b: '%s ≤ %s' % (c, b)}

    def column(n):
        txt = ast.unparse(n)
        if txt not in spec.columns:
            raise Untranslatable('unknown column %s' % txt)
        if spec.columns[txt] not in used_cols:
            used_cols.append(spec.columns[txt])
        return spec.columns[txt]

    for s in fn.body:
        if isinstance(s, ast.Expr) and isinstance(s.value, ast.Constant):
            continue
        if isinstance(s, ast.Assign) and len(s.targets) == 1 and isinstance(s.targets[0], ast.Name) and s.targets[0].id == 'mask' \
                and isinstance(s.value, ast.Call) and ast.unparse(s.value.func) in ('numpy.ones', 'np.ones'):
            lines.append('let mask := true')
            have_mask = True
            continue
        if isinstance(s, ast.Assign) and len(s.targets) == 1:
            t, v = s.targets[0], s.value
            names = [t] if isinstance(t, ast.Name) else list(t.elts) if isinstance(t, ast.Tuple) else None
            vals = [v] if isinstance(t, ast.Name) else list(v.elts) if isinstance(v, ast.Tuple) else None
            if names and vals and len(names) == len(vals) and all(isinstance(x, ast.Name) for x in names) and all(_get_name(x) in spec.options for x in vals):
                for a_, b_ in zip(names, vals):
                    env[a_.id] = _get_name(b_)
                continue
            raise Untranslatable('assignment %s' % ast.unparse(s)[:60])
        if isinstance(s, ast.If) and not s.orelse and len(s.body) == 1 and have_mask:
            test, body = s.test, s.body[0]
            # if a is not None: mask *= (col op a)
            if isinstance(test, ast.Compare) and len(test.ops) == 1 and isinstance(test.ops[0], ast.IsNot) and isinstance(test.left, ast.Name) \
                    and test.left.id in env and isinstance(test.comparators[0], ast.Constant) and test.comparators[0].value is None:
                opt = env[test.left.id]
                if isinstance(body, ast.AugAssign) and isinstance(body.op, (ast.Mult, ast.BitAnd)) and isinstance(body.target, ast.Name) and body.target.id == 'mask' \
                        and isinstance(body.value, ast.Compare) and len(body.value.ops) == 1 and type(body.value.ops[0]) in OPS \
                        and isinstance(body.value.comparators[0], ast.Name) and body.value.comparators[0].id == test.left.id:
                    c = column(body.value.left)
                    lines.append('let mask := match %s with | some b => mask && decide (%s) | none => mask' % (opt, OPS[type(body.value.ops[0])](c, 'b')))
                    continue
                raise Untranslatable('bound statement %s' % ast.unparse(body)[:80])
            # if self.get('flag'): mask = numpy.logical_not(mask)
            flag = _get_name(test)
            if flag in spec.flags and isinstance(body, ast.Assign) and ast.unparse(body) in ('mask = numpy.logical_not(mask)', 'mask = ~mask'):
                lines.append('let mask := if %s then !mask else mask' % flag)
                continue
            raise Untranslatable('if %s' % ast.unparse(test)[:60])
        if isinstance(s, ast.Return) and isinstance(s.value, ast.Name) and s.value.id == 'mask':
            lines.append('mask')
            break
        raise Untranslatable(ast.unparse(s)[:80])
    else:
        raise Untranslatable('no return')
    sig = ' '.join('(%s : α)' % c for c in used_cols) + ' ' + ' '.join('(%s : Option α)' % o for o in spec.options) + ' ' + ' '.join('(%s : Bool)' % f for f in spec.flags)
    doc = '/-- `%s.%s`, read for one row -/\n' % (spec.module, spec.qual)
    return doc + 'def %s {α : Type} [LT α] [LE α] [DecidableRel (α := α) (· < ·)] [DecidableRel (α := α) (· ≤ ·)] %s : Bool :=\n%s\n' % (
        spec.lean, sig, textwrap.indent('\n'.join(lines), '  '))


SPECS = [
    MaskSpec('ixpeobssim.evt.subselect', 'xEventSelect._time_selection_mask', 'time_selection_mask',
             {'self.event_file.time_data()': 'time'}, ['tmin', 'tmax'], ['tinvert']),
    MaskSpec('ixpeobssim.evt.subselect', 'xEventSelect._phase_selection_mask', 'phase_selection_mask',
             {'self.event_file.phase_data()': 'phase'}, ['phasemin', 'phasemax'], ['phaseinvert']),
]


def lean_file(golden):
    out = ['/-! Generated by translator/masks.py from the /repo working tree — do not edit. -/', 'namespace Gen', '']
    status = {}
    for sp in SPECS:
        try:
            txt = translate(sp)
            status[sp.lean] = dict(tie='translated', differs_from_golden=golden.get('mask:' + sp.lean) not in (None, txt))
        except Exception as e:
            txt = golden.get('mask:' + sp.lean)
            if txt is None:
                raise
            status[sp.lean] = dict(tie='correspondence-only', reason='%s: %s' % (type(e).__name__, e))
        golden['mask:' + sp.lean] = golden.get('mask:' + sp.lean) if status[sp.lean]['tie'] != 'translated' else txt
        out.append(txt)
    out += ['end Gen', '']
    return '\n'.join(out), status
