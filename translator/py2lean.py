"""Python-ast -> Lean 4 translator for the straight-line numpy formula functions of ixpeobssim.

Part of the trusted base (DESIGN.md section 6), and validated on every run by the
correspondence harness (harness/corr_gen.py), which runs every generated definition on
`Float` against the real Python function on random inputs.

The generated definitions are polymorphic in `[RealLike α]` (lean/IxpeVerif/Num.lean):
instantiated at Float they run, instantiated at ℝ the theorems in Props/*.lean are about them.
So a change of the Python source changes the Lean definition the theorems are stated about,
and `lake build` re-checks the theorems against what the code says now.

Supported subset (anything else raises Untranslatable and the caller falls back to the
committed golden definition, bound to the code by the correspondence only):
  * positional scalar parameters (type α), Bool parameters, parameters bound to a constant
    in the spec (None / not-None / True / False / number)
  * `self.<attr>` -> extra α parameter `self_<attr>`
  * Assign / AugAssign to names and tuples -> `let`
  * `if <const>`: folded; `if <bool or comparison>: <assignments>` -> conditional lets;
    `if c: return a` followed by the rest -> `if c then a else rest`
  * `assert` -> ignored (recorded)
  * + - * /, unary minus, `**` with constant exponent 2, 3, 0.5 or general (exp(b log a))
  * numpy.{cos,sin,sqrt,arctan2,exp,log,floor,radians,degrees,abs,mod,logical_and,full}
  * comparisons used as numbers (numpy idiom `2*pi*(phi < -pi)`) -> if-then-else 1.0/0.0
  * calls to other registered functions; calls listed as *abstract* in the spec (RNG draws,
    table look-ups, spline evaluations) -> fresh parameters
  * module constants resolved from the imported module
  * `elementwise=True` specs — the numpy *masked-array idiom* read per element: every array argument is one element of it;
    `x = numpy.zeros/full/ones(shape)` -> the constant; `mask = <comparison / logical_and / logical_not / logical_or>` -> a Bool;
    `Y[mask]` (also `(a*b)[mask]`, `Y[mask][sub]`, and aliases `_Y = Y[mask]`) -> `Y` (the value of that element, read only where the mask
    holds); `x[mask] = e` -> `x := if mask then e else x`; `numpy.clip`; `if abort-guard` -> precondition. Cross-element operations
    (sums, sorts, reductions) are not in the subset. `drop=[names]` projects away outputs the model does not interpret (e.g. SIGNIF, which
    goes through scipy): statements assigning them are skipped and it is checked that nothing kept reads them.
"""
import ast
import importlib
import inspect
import textwrap
import json
import sys


class Untranslatable(Exception):
    pass


NP1 = {'cos': 'RealLike.cos', 'sin': 'RealLike.sin', 'sqrt': 'RealLike.sqrt', 'exp': 'RealLike.exp',
       'log': 'RealLike.log', 'floor': 'RealLike.floor'}


def flit(v):
    """Lean scientific literal denoting the decimal repr of the Python float (same double)."""
    f = float(v)
    if f != f or f in (float('inf'), float('-inf')):
        raise Untranslatable('non-finite constant')
    if f < 0:
        return '(-%s)' % flit(-f)
    r = repr(f)
    if 'e' in r:
        m, e = r.split('e')
        if '.' not in m:
            m += '.0'
        r = '%se%d' % (m, int(e))
    return '(%s : α)' % r


class Spec:
    def __init__(self, module, qual, lean, params, bools=(), consts=None, abstract=None, note='', elementwise=False, drop=(), guards=(), skip_calls=(), method_calls=None):
        self.module, self.qual, self.lean = module, qual, lean
        self.params = list(params)          # python names that become α parameters, in order
        self.bools = list(bools)            # python names that become Bool parameters
        self.consts = dict(consts or {})    # python name -> python constant (None, True, 'NotNone', 1.0, ...)
        self.abstract = dict(abstract or {})  # call text prefix -> param name or tuple of names
        self.note = note
        self.elementwise = elementwise      # per-element reading of the masked-array idiom
        self.drop = set(drop)               # outputs projected away (with the statements that compute them)
        self.guards = set(guards)           # names of guard calls (abort on incompatible operands) skipped as preconditions
        self.skip_calls = set(skip_calls)   # calls that only recompute derived attributes which are not outputs of this definition
        self.method_calls = dict(method_calls or {})   # method name -> (lean function, builder(args as python source strings) -> list of expressions)

    def obj(self):
        o = importlib.import_module(self.module)
        for part in self.qual.split('.'):
            o = inspect.getattr_static(o, part) if inspect.isclass(o) else getattr(o, part)
            if isinstance(o, (staticmethod, classmethod)):
                o = o.__func__
        return o


class Translator:
    def __init__(self, registry):
        self.registry = registry            # python simple name -> Spec (for calls between functions)

    # ------------------------------------------------------------------ expressions
    def const_of(self, name, spec, mod):
        if hasattr(mod, name):
            v = getattr(mod, name)
            if isinstance(v, bool):
                return None
            if isinstance(v, (int, float)) or (hasattr(v, 'dtype') and getattr(v, 'shape', None) == ()):
                return flit(float(v))
        return None

    def expr(self, n, cx):
        spec, mod, env = cx['spec'], cx['mod'], cx['env']
        if isinstance(n, ast.Constant):
            if isinstance(n.value, bool) or n.value is None:
                raise Untranslatable('bool/None constant in arithmetic')
            return flit(n.value)
        if isinstance(n, ast.Name):
            if n.id in env:
                return env[n.id]
            if n.id in spec.consts and isinstance(spec.consts[n.id], (int, float)) and not isinstance(spec.consts[n.id], bool):
                return flit(spec.consts[n.id])
            c = self.const_of(n.id, spec, mod)
            if c is not None:
                return c
            raise Untranslatable('unknown name %s' % n.id)
        if isinstance(n, ast.Attribute):
            s = ast.unparse(n)
            if s in ('numpy.pi', 'np.pi'):
                return '(RealLike.pi : α)'
            if spec.elementwise and s.startswith('other.') and s.count('.') == 1:
                nm = 'other_' + n.attr
                if nm not in cx['selfattrs']:
                    cx['selfattrs'].append(nm)
                return nm
            if s.startswith('self.') and s.count('.') == 1 and ('self_' + n.attr) in cx['env']:
                return cx['env']['self_' + n.attr]          # an attribute re-assigned earlier in the method
            if s.startswith('self.') and s.count('.') == 1:
                nm = 'self_' + n.attr
                if nm not in cx['selfattrs']:
                    cx['selfattrs'].append(nm)
                return nm
            raise Untranslatable('attribute %s' % s)
        if isinstance(n, ast.UnaryOp) and isinstance(n.op, ast.USub):
            return '(-%s)' % self.expr(n.operand, cx)
        if isinstance(n, ast.UnaryOp) and isinstance(n.op, ast.UAdd):
            return self.expr(n.operand, cx)
        if isinstance(n, ast.BinOp):
            if isinstance(n.op, ast.Pow):
                a = self.expr(n.left, cx)
                if isinstance(n.right, ast.Constant):
                    e = float(n.right.value)
                    if e == 2.:
                        return '(%s * %s)' % (a, a)
                    if e == 3.:
                        return '(%s * %s * %s)' % (a, a, a)
                    if e == 0.5:
                        return '(RealLike.sqrt %s)' % a
                b = self.expr(n.right, cx)
                cx['notes'].append('general power a**b translated as exp(b*log a) (a > 0)')
                return '(RealLike.exp (%s * RealLike.log %s))' % (b, a)
            op = {ast.Add: '+', ast.Sub: '-', ast.Mult: '*', ast.Div: '/'}.get(type(n.op))
            if op is None:
                raise Untranslatable('operator %s' % type(n.op).__name__)
            return '(%s %s %s)' % (self.expr(n.left, cx), op, self.expr(n.right, cx))
        if isinstance(n, ast.Compare):
            return '(if %s then (1.0 : α) else (0.0 : α))' % self.cond(n, cx)
        if isinstance(n, ast.IfExp):
            return '(if %s then %s else %s)' % (self.cond(n.test, cx), self.expr(n.body, cx), self.expr(n.orelse, cx))
        if isinstance(n, ast.Tuple):
            return '(%s)' % ', '.join(self.expr(e, cx) for e in n.elts)
        if isinstance(n, ast.Call):
            return self.call(n, cx)
        if isinstance(n, ast.Subscript) and spec.elementwise and isinstance(n.slice, ast.Name) and n.slice.id in cx['boolenv']:
            cx['notes'].append('%s read per element under the mask %s' % (ast.unparse(n.value), n.slice.id))
            return self.expr(n.value, cx)
        if isinstance(n, ast.Subscript):
            fake = ast.Call(func=n.value, args=[], keywords=[])
            a = self.abstract_param(fake, cx)
            if a is not None:
                return a
        raise Untranslatable(ast.dump(n)[:80])

    def abstract_param(self, n, cx):
        txt = ast.unparse(n.func)
        for key, val in cx['spec'].abstract.items():
            if txt == key or txt.endswith('.' + key) or txt == 'self.' + key:
                names = [val] if isinstance(val, str) else list(val)
                cx['abscalls'].append(ast.unparse(n) if n.args or n.keywords else ast.unparse(n.func))
                # a second occurrence of the same abstract call gets fresh names
                k = cx['abs_count'].get(key, 0)
                cx['abs_count'][key] = k + 1
                if k:
                    names = ['%s_%d' % (x, k + 1) for x in names]
                for x in names:
                    if x not in cx['absparams']:
                        cx['absparams'].append(x)
                return names[0] if len(names) == 1 else '(%s)' % ', '.join(names)
        return None

    def call(self, n, cx):
        f = ast.unparse(n.func)
        a = self.abstract_param(n, cx)
        if a is not None:
            return a
        base = f.split('.')[-1]
        if f.startswith('self.') and base in cx['spec'].method_calls:
            lean_fn, builder = cx['spec'].method_calls[base]
            parts = builder([ast.unparse(a_) for a_ in n.args])
            cx['notes'].append('method call %s read as %s on %s' % (ast.unparse(n)[:80], lean_fn, parts))
            return '(%s %s)' % (lean_fn, ' '.join(self.expr(ast.parse(p_, mode='eval').body, cx) if p_ not in ('true', 'false') else p_ for p_ in parts))
        isnp = f.startswith(('numpy.', 'np.'))
        args = n.args
        if f == 'abs' or (isnp and base in ('abs', 'absolute', 'fabs')):
            x = self.expr(args[0], cx)
            return '(if %s < (0.0 : α) then (-%s) else %s)' % (x, x, x)
        if isnp and base in NP1:
            return '(%s %s)' % (NP1[base], self.expr(args[0], cx))
        if isnp and base == 'arctan2':
            return '(RealLike.atan2 %s %s)' % (self.expr(args[0], cx), self.expr(args[1], cx))
        if isnp and base == 'radians':
            return '(%s * ((RealLike.pi : α) / (180.0 : α)))' % self.expr(args[0], cx)
        if isnp and base == 'degrees':
            return '(%s * ((180.0 : α) / (RealLike.pi : α)))' % self.expr(args[0], cx)
        if isnp and base == 'mod':
            x, m = self.expr(args[0], cx), self.expr(args[1], cx)
            return '(%s - RealLike.floor (%s / %s) * %s)' % (x, x, m, m)
        if isnp and base == 'logical_and':
            return '(if %s ∧ %s then (1.0 : α) else (0.0 : α))' % (self.cond(args[0], cx), self.cond(args[1], cx))
        if isnp and base == 'full':
            return self.expr(args[1], cx)
        if isnp and base in ('zeros', 'zeros_like') and cx['spec'].elementwise:
            return '(0.0 : α)'
        if isnp and base in ('ones', 'ones_like') and cx['spec'].elementwise:
            return '(1.0 : α)'
        if isnp and base == 'clip':
            x, lo, hi = (self.expr(a_, cx) for a_ in args[:3])
            return '(if %s < %s then %s else if %s < %s then %s else %s)' % (x, lo, lo, hi, x, hi, x)
        if isnp and base == 'hypot':
            x, y = self.expr(args[0], cx), self.expr(args[1], cx)
            return '(RealLike.sqrt (%s * %s + %s * %s))' % (x, x, y, y)
        if isinstance(n.func, ast.Attribute) and n.func.attr == 'astype':
            return self.expr(n.func.value, cx)       # floor(x).astype(int32): the value is kept
        if base in self.registry:
            sp = self.registry[base]
            kw = {k.arg: k.value for k in n.keywords}
            fn = sp.obj()
            sig = inspect.signature(fn).parameters
            names = [p for p in sig if p != 'self']
            bound = dict(zip(names, args))
            bound.update(kw)
            out = []
            for p in sp.params:
                if p in bound:
                    out.append(self.expr(bound[p], cx))
                else:
                    d = sig[p].default
                    if d is inspect.Parameter.empty:
                        raise Untranslatable('missing argument %s in call to %s' % (p, base))
                    out.append(flit(d))
            if sp._selfattrs:
                raise Untranslatable('call to method %s' % base)
            for extra in sp._absparams:      # the callee's abstract parameters become ours
                if extra not in cx['absparams']:
                    cx['absparams'].append(extra)
                out.append(extra)
            for b in sp.bools:
                v = bound.get(b, ast.Constant(sig[b].default))
                if isinstance(v, ast.Constant) and isinstance(v.value, bool):
                    out.append('true' if v.value else 'false')
                elif isinstance(v, ast.Name) and v.id in cx['boolenv']:
                    out.append(v.id)
                else:
                    raise Untranslatable('bool argument')
            return '(%s %s)' % (sp.lean, ' '.join(out))
        raise Untranslatable('call %s' % f)

    def cond(self, n, cx):
        """A Prop (decidable through RealLike.decLt/decLe)."""
        if isinstance(n, ast.Compare) and len(n.ops) == 1:
            a, b = self.expr(n.left, cx), self.expr(n.comparators[0], cx)
            op = n.ops[0]
            if isinstance(op, ast.Lt):
                return '%s < %s' % (a, b)
            if isinstance(op, ast.Gt):
                return '%s < %s' % (b, a)
            if isinstance(op, ast.LtE):
                return '%s ≤ %s' % (a, b)
            if isinstance(op, ast.GtE):
                return '%s ≤ %s' % (b, a)
            if isinstance(op, ast.Eq):
                return '(%s ≤ %s ∧ %s ≤ %s)' % (a, b, b, a)
            if isinstance(op, ast.NotEq):
                return '¬ (%s ≤ %s ∧ %s ≤ %s)' % (a, b, b, a)
        if isinstance(n, ast.Name) and n.id in cx['boolenv']:
            return '%s = true' % n.id
        if isinstance(n, ast.Call) and ast.unparse(n.func).split('.')[-1] == 'logical_and':
            return '(%s ∧ %s)' % (self.cond(n.args[0], cx), self.cond(n.args[1], cx))
        if isinstance(n, ast.Call) and ast.unparse(n.func).split('.')[-1] == 'logical_or':
            return '(%s ∨ %s)' % (self.cond(n.args[0], cx), self.cond(n.args[1], cx))
        if isinstance(n, ast.Call) and ast.unparse(n.func).split('.')[-1] == 'logical_not':
            return '(¬ %s)' % self.cond(n.args[0], cx)
        if isinstance(n, ast.BinOp) and isinstance(n.op, (ast.BitAnd, ast.BitOr)):
            return '(%s %s %s)' % (self.cond(n.left, cx), '∧' if isinstance(n.op, ast.BitAnd) else '∨', self.cond(n.right, cx))
        if isinstance(n, ast.BoolOp):
            j = ' ∧ ' if isinstance(n.op, ast.And) else ' ∨ '
            return '(%s)' % j.join(self.cond(v, cx) for v in n.values)
        raise Untranslatable('condition %s' % ast.unparse(n))

    def is_boolean(self, n, cx):
        if isinstance(n, ast.Compare):
            return True
        if isinstance(n, ast.Call) and ast.unparse(n.func).split('.')[-1] in ('logical_and', 'logical_or', 'logical_not'):
            return True
        if isinstance(n, ast.BinOp) and isinstance(n.op, (ast.BitAnd, ast.BitOr)):
            return self.is_boolean(n.left, cx) and self.is_boolean(n.right, cx)
        return isinstance(n, ast.Name) and n.id in cx['boolenv'] and n.id not in cx['spec'].bools

    def const_cond(self, n, cx):
        """Return True/False if the test is decided by the spec constants, else None."""
        c = cx['spec'].consts
        if isinstance(n, ast.Compare) and len(n.ops) == 1 and isinstance(n.left, ast.Name) and n.left.id in c \
                and isinstance(n.comparators[0], ast.Constant) and n.comparators[0].value is None:
            isnone = c[n.left.id] is None
            return isnone if isinstance(n.ops[0], ast.Is) else (not isnone)
        if isinstance(n, ast.Name) and n.id in c and isinstance(c[n.id], bool):
            return c[n.id]
        if isinstance(n, ast.Call) and ast.unparse(n.func) == 'isinstance':
            return bool(c.get('__isinstance__', False))    # isinstance(x, numbers.Number) promotions: the array path unless the spec says the argument is a Python number
        return None

    # ------------------------------------------------------------------ statements
    def block(self, stmts, cx, tail=None):
        """Translate a statement list to a Lean expression (string, with newlines)."""
        if not stmts:
            if tail is None:
                raise Untranslatable('block without return')
            return tail
        s, rest = stmts[0], stmts[1:]
        if isinstance(s, ast.Expr) and isinstance(s.value, ast.Constant):
            return self.block(rest, cx, tail)
        if isinstance(s, ast.Assert):
            cx['notes'].append('assert ignored: %s' % ast.unparse(s.test))
            return self.block(rest, cx, tail)
        if isinstance(s, ast.FunctionDef):
            cx['notes'].append('nested def %s ignored' % s.name)
            return self.block(rest, cx, tail)
        spec = cx['spec']
        if spec.drop:
            tnames = set()
            if isinstance(s, (ast.Assign, ast.AugAssign)):
                for t_ in (s.targets if isinstance(s, ast.Assign) else [s.target]):
                    b_ = t_
                    while isinstance(b_, ast.Subscript):
                        b_ = b_.value
                    if isinstance(b_, ast.Name):
                        tnames.add(b_.id)
            reads = {x.id for x in ast.walk(s.value if isinstance(s, (ast.Assign, ast.AugAssign)) else s) if isinstance(x, ast.Name)}
            if tnames and tnames <= spec.drop | cx['dropped']:
                cx['dropped'] |= tnames
                cx['notes'].append('projected away: %s' % ast.unparse(s)[:80])
                return self.block(rest, cx, tail)
            if isinstance(s, ast.Return) and isinstance(s.value, ast.Tuple):
                s = ast.Return(value=ast.Tuple(elts=[e for e in s.value.elts if not (isinstance(e, ast.Name) and e.id in spec.drop | cx['dropped'])], ctx=ast.Load()))
            elif reads & (spec.drop | cx['dropped']) and not isinstance(s, ast.Return):
                raise Untranslatable('a kept statement reads a projected-away variable: %s' % ast.unparse(s)[:80])
        if spec.elementwise and isinstance(s, ast.With):
            cx['notes'].append('with %s: body inlined' % ast.unparse(s.items[0].context_expr)[:60])
            return self.block(list(s.body) + rest, cx, tail)
        if spec.elementwise and isinstance(s, ast.Expr) and isinstance(s.value, ast.Call) and ast.unparse(s.value.func).split('.')[-1].lstrip('_') in {g_.lstrip('_') for g_ in spec.guards}:
            cx['notes'].append('guard call (aborts on incompatible operands): %s' % ast.unparse(s.value)[:100])
            return self.block(rest, cx, tail)
        if spec.elementwise and isinstance(s, ast.Expr) and isinstance(s.value, ast.Call) and ast.unparse(s.value.func).split('.')[-1].lstrip('_') in {g_.lstrip('_') for g_ in spec.skip_calls}:
            cx['notes'].append('call that recomputes derived attributes (not outputs here): %s' % ast.unparse(s.value)[:100])
            return self.block(rest, cx, tail)
        if spec.elementwise and spec.guards and isinstance(s, ast.Assign) and len(s.targets) == 1 and isinstance(s.targets[0], ast.Name):
            # a name that only feeds the guard call (the list of columns that must agree): not part of the arithmetic
            gnames = {g_.lstrip('_') for g_ in spec.guards}
            is_guard = lambda x: isinstance(x, ast.Expr) and isinstance(x.value, ast.Call) and ast.unparse(x.value.func).split('.')[-1].lstrip('_') in gnames
            nm_ = s.targets[0].id
            read_elsewhere = any(isinstance(x, ast.Name) and x.id == nm_ for r_ in rest if not is_guard(r_) for x in ast.walk(r_))
            read_by_guard = any(isinstance(x, ast.Name) and x.id == nm_ for r_ in rest if is_guard(r_) for x in ast.walk(r_))
            if read_by_guard and not read_elsewhere:
                cx['notes'].append('argument of the guard only: %s' % ast.unparse(s)[:80])
                return self.block(rest, cx, tail)
        if spec.elementwise and isinstance(s, ast.AugAssign) and isinstance(s.target, ast.Attribute) and isinstance(s.target.value, ast.Name) and s.target.value.id == 'self':
            op = {ast.Add: '+', ast.Sub: '-', ast.Mult: '*', ast.Div: '/'}.get(type(s.op))
            if op is None:
                raise Untranslatable('augassign op')
            nm = 'self_' + s.target.attr
            cur = self.expr(s.target, cx)
            v = self.expr(s.value, cx)
            if nm not in cx['selfattrs']:
                cx['selfattrs'].append(nm)
            cx['env'][nm] = nm
            if nm not in cx['assigned_self']:
                cx['assigned_self'].append(nm)
            return 'let %s := (%s %s %s)\n%s' % (nm, cur, op, v, self.block(rest, cx, tail))
        if spec.elementwise and isinstance(s, ast.Return) and isinstance(s.value, ast.Name) and s.value.id == 'self':
            if not cx['assigned_self']:
                raise Untranslatable('return self without state update')
            return '(%s)' % ', '.join(cx['assigned_self'])
        if isinstance(s, ast.Return):
            return self.expr(s.value, cx)
        if spec.elementwise and isinstance(s, ast.Assign) and len(s.targets) == 1 and isinstance(s.targets[0], ast.Attribute) \
                and isinstance(s.targets[0].value, ast.Name) and s.targets[0].value.id == 'self':
            nm = 'self_' + s.targets[0].attr
            v = self.expr(s.value, cx)
            if nm not in cx['selfattrs']:
                cx['selfattrs'].append(nm)
            cx['env'][nm] = nm
            if nm not in cx['assigned_self']:
                cx['assigned_self'].append(nm)
            return 'let %s := %s\n%s' % (nm, v, self.block(rest, cx, tail))
        if spec.elementwise and isinstance(s, ast.Assign) and len(s.targets) == 1 and isinstance(s.targets[0], ast.Subscript) \
                and isinstance(s.targets[0].value, ast.Name) and isinstance(s.targets[0].slice, ast.Compare):
            nm = s.targets[0].value.id
            if nm not in cx['env']:
                raise Untranslatable('masked assignment to an unknown array %s' % nm)
            c = self.cond(s.targets[0].slice, cx)
            v = self.expr(s.value, cx)
            return 'let %s := if %s then %s else %s\n%s' % (nm, c, v, cx['env'][nm], self.block(rest, cx, tail))
        if spec.elementwise and isinstance(s, ast.Assign) and len(s.targets) == 1 and isinstance(s.targets[0], ast.Name) and self.is_boolean(s.value, cx):
            nm = s.targets[0].id
            c = self.cond(s.value, cx)
            cx['boolenv'].add(nm)
            return 'let %s : Bool := decide (%s)\n%s' % (nm, c, self.block(rest, cx, tail))
        if spec.elementwise and isinstance(s, ast.Assign) and len(s.targets) == 1 and isinstance(s.targets[0], ast.Subscript) \
                and isinstance(s.targets[0].value, ast.Name) and isinstance(s.targets[0].slice, ast.Name) and s.targets[0].slice.id in cx['boolenv']:
            nm, mk = s.targets[0].value.id, s.targets[0].slice.id
            if nm not in cx['env']:
                raise Untranslatable('masked assignment to an unknown array %s' % nm)
            v = self.expr(s.value, cx)
            return 'let %s := if %s = true then %s else %s\n%s' % (nm, mk, v, cx['env'][nm], self.block(rest, cx, tail))
        if isinstance(s, ast.Assign) and len(s.targets) == 1:
            t = s.targets[0]
            v = self.expr(s.value, cx)
            if isinstance(t, ast.Name):
                cx['env'][t.id] = t.id
                return 'let %s := %s\n%s' % (t.id, v, self.block(rest, cx, tail))
            if isinstance(t, ast.Tuple) and all(isinstance(e, ast.Name) for e in t.elts):
                for e in t.elts:
                    cx['env'][e.id] = e.id
                return 'let (%s) := %s\n%s' % (', '.join(e.id for e in t.elts), v, self.block(rest, cx, tail))
            if cx['spec'].elementwise and isinstance(t, ast.Tuple) and all(isinstance(e, ast.Attribute) and isinstance(e.value, ast.Name) and e.value.id == 'self' for e in t.elts):
                names = ['self_' + e.attr for e in t.elts]       # self.A, self.B = f(...)
                for nm in names:
                    if nm not in cx['selfattrs']:
                        cx['selfattrs'].append(nm)
                    cx['env'][nm] = nm
                    if nm not in cx['assigned_self']:
                        cx['assigned_self'].append(nm)
                return 'let (%s) := %s\n%s' % (', '.join(names), v, self.block(rest, cx, tail))
            raise Untranslatable('assignment target')
        if isinstance(s, ast.AugAssign) and isinstance(s.target, ast.Name):
            op = {ast.Add: '+', ast.Sub: '-', ast.Mult: '*', ast.Div: '/'}.get(type(s.op))
            if op is None:
                raise Untranslatable('augassign op')
            cur = self.expr(s.target, cx)
            v = self.expr(s.value, cx)
            cx['env'][s.target.id] = s.target.id
            return 'let %s := (%s %s %s)\n%s' % (s.target.id, cur, op, v, self.block(rest, cx, tail))
        if isinstance(s, ast.If) and len(s.body) == 1 and isinstance(s.body[0], ast.Raise) and not s.orelse:
            cx['notes'].append('precondition (raises otherwise): not (%s)' % ast.unparse(s.test))
            return self.block(rest, cx, tail)
        if isinstance(s, ast.If):
            k = self.const_cond(s.test, cx)
            if k is True:
                return self.block(list(s.body) + rest, cx, tail)
            if k is False:
                return self.block(list(s.orelse) + rest, cx, tail)
            if cx['spec'].elementwise and not s.orelse and s.body and isinstance(s.body[-1], ast.Expr) and isinstance(s.body[-1].value, ast.Call) \
                    and ast.unparse(s.body[-1].value.func) == 'abort':
                cx['notes'].append('precondition (aborts otherwise): not (%s)' % ast.unparse(s.test))
                return self.block(rest, cx, tail)
            c = self.cond(s.test, cx)
            ends_ret = s.body and isinstance(s.body[-1], ast.Return)
            calls_abort = s.body and isinstance(s.body[-1], ast.Expr) and isinstance(s.body[-1].value, ast.Call) \
                and ast.unparse(s.body[-1].value.func) in ('abort',)
            if calls_abort and cx['spec'].elementwise and not s.orelse:
                cx['notes'].append('precondition (aborts otherwise): not (%s)' % ast.unparse(s.test))
                return self.block(rest, cx, tail)
            if calls_abort:
                raise Untranslatable('abort branch')
            if ends_ret and not s.orelse:
                import copy
                cx2 = dict(cx, env=dict(cx['env']))
                a = self.block(list(s.body), cx2, None)
                b = self.block(rest, cx, tail)
                return 'if %s then\n%s\nelse\n%s' % (c, textwrap.indent(a, '  '), textwrap.indent(b, '  '))
            # conditional (re)assignments only
            outs = []
            for b in s.body:
                if isinstance(b, ast.Assign) and len(b.targets) == 1 and isinstance(b.targets[0], ast.Name):
                    nm = b.targets[0].id
                    outs.append('let %s := if %s then %s else %s' % (nm, c, self.expr(b.value, cx), self.expr(b.targets[0], cx)))
                elif isinstance(b, ast.AugAssign) and isinstance(b.target, ast.Name):
                    op = {ast.Add: '+', ast.Sub: '-', ast.Mult: '*', ast.Div: '/'}[type(b.op)]
                    nm = b.target.id
                    outs.append('let %s := if %s then (%s %s %s) else %s' % (nm, c, nm, op, self.expr(b.value, cx), nm))
                else:
                    raise Untranslatable('if body')
            if s.orelse:
                raise Untranslatable('if/else with assignments')
            return '\n'.join(outs) + '\n' + self.block(rest, cx, tail)
        raise Untranslatable(ast.dump(s)[:80])

    def function(self, spec):
        fn = spec.obj()
        mod = importlib.import_module(spec.module)
        src = textwrap.dedent(inspect.getsource(fn))
        node = ast.parse(src).body[0]
        cx = dict(spec=spec, mod=mod, env={p: p for p in spec.params}, boolenv=set(spec.bools),
                  selfattrs=[], absparams=[], abs_count={}, notes=[], abscalls=[], dropped=set(), assigned_self=[])
        body = self.block(list(node.body), cx)
        # return arity
        nret = len(cx['assigned_self']) if cx['assigned_self'] else self._arity(node, self.registry, spec.drop | cx['dropped'])
        rty = ' × '.join(['α'] * nret)
        spec._selfattrs, spec._absparams, spec._nret, spec._notes = cx['selfattrs'], cx['absparams'], nret, cx['notes']
        spec._abscalls = cx['abscalls']
        allp = spec.params + cx['selfattrs'] + cx['absparams']
        sig = ''
        if allp:
            sig += ' (%s : α)' % ' '.join(allp)
        if spec.bools:
            sig += ' (%s : Bool)' % ' '.join(spec.bools)
        doc = '/-- `%s.%s`%s -/\n' % (spec.module, spec.qual, (' — ' + spec.note) if spec.note else '')
        return doc + 'def %s {α : Type} [RealLike α]%s : %s :=\n%s\n' % (spec.lean, sig, rty, textwrap.indent(body, '  '))

    @staticmethod
    def _arity(node, registry, dropped=frozenset()):
        for s in ast.walk(node):
            if isinstance(s, ast.Return) and s.value is not None and isinstance(s.value, ast.Tuple) and dropped:
                return len([e for e in s.value.elts if not (isinstance(e, ast.Name) and e.id in dropped)])
            if isinstance(s, ast.Return) and s.value is not None:
                if isinstance(s.value, ast.Call):
                    base = ast.unparse(s.value.func).split('.')[-1]
                    if base in registry:
                        return registry[base]._nret
                return len(s.value.elts) if isinstance(s.value, ast.Tuple) else 1
        raise Untranslatable('no return')
