"""Imperative translator over the *real* scalar class (T-tie for the scalar bookkeeping code that is not a straight-line formula):
Python loops with accumulators, `if / elif`, optional values (`None`), dictionaries with literal keys  ->  Lean definitions polymorphic in
`α` with `[RealLike α]` (`Gen/ImpR.lean`), statement by statement, on the machinery of `imptrans.Imp`.

  harmonic_addition                (srcmodel/polarization.py, C20)  the double loop of the harmonic addition theorem
  xEventSelect.time_selected / phase_selected / _time_header_keywords   (evt/subselect.py, C10)  the keywords written by `xpselect --ltimeupdate`

The hand-written models stay (`Pol.harmonicAddition`, `SelKw.keywords`); `Props/C20.lean` / `Props/C10.lean` prove the generated definitions equal
to them over ℝ, so that an edit of an accumulator, of a branch, of a default or of a key in the source breaks a proof obligation.

Additional subset (on top of imptrans): float and integer constants are real literals; `+ - * /` on reals; numpy.{sin,cos,sqrt,arctan2,exp,log};
`for (a, b, c) in params` over a list of triples; `None`, `x is None`, `x is not None`, `(a, b) != (None, None)`; the default idiom
`if x is None: x = e`; string constants and `==` on them; `d = {}`, `d['K'] = v`; a conditional that first binds a variable which is read later
(the variable is `none` on the paths that do not bind it: Python would raise UnboundLocalError); an optional value used where a number is
needed (Python raises TypeError / UnboundLocalError) makes the whole result `none`; an `if` block whose only effects are logging and variables
that are never read again is skipped (recorded); `if not <flag>: return None` at the head is a recorded precondition.
"""
import ast
import inspect
import textwrap

from py2lean import Untranslatable
import imptrans
from imptrans import Imp, ImpSpec, _assigned, _escapes

LEAN_T = {'R': 'α', 'OR': 'Option α', 'B': 'Bool', 'S': 'String', 'D': 'List (String × α)', 'T3': 'α × α × α', 'LT3': 'List (α × α × α)',
          'LR': 'List α', 'LN': 'List Nat', 'F': 'α → α'}
ELEM = {'LT3': 'T3'}


def lean_type(t):
    if isinstance(t, tuple):
        return ' × '.join('(%s)' % lean_type(x) for x in t)
    return LEAN_T[t]


def _reads(stmts):
    out = set()
    for s in stmts:
        for n in ast.walk(s):
            if isinstance(n, ast.Name) and isinstance(n.ctx, ast.Load):
                out.add(n.id)
    return out


class NeedUnwrap(Exception):
    def __init__(self, name):
        Exception.__init__(self, name)
        self.name = name


class ImpR(Imp):
    def lt(self, t):
        return lean_type(t)

    # ------------------------------------------------------------ expressions
    def const(self, v):
        if isinstance(v, bool):
            return ('true' if v else 'false'), 'B'
        if v is None:
            return '(none : Option α)', 'OR'
        if isinstance(v, str):
            if '"' in v or '\\' in v:
                raise Untranslatable('string constant %r' % v)
            return '"%s"' % v, 'S'
        if isinstance(v, int):
            return '(%d.0 : α)' % v, 'R'
        if isinstance(v, float):
            r = repr(v)
            if 'e' in r and '.' not in r:
                m, e = r.split('e')
                r = '%s.0e%d' % (m, int(e))
            if 'inf' in r or 'nan' in r:
                raise Untranslatable('constant %r' % v)
            return '(%s : α)' % r, 'R'
        raise Untranslatable('constant %r' % (v,))

    def need_real(self, txt, t, node):
        """a value used where a number is needed: an optional value must be bound (else the function fails)"""
        if t == 'R':
            return txt
        if t == 'OR' and isinstance(node, ast.Name):
            raise NeedUnwrap(node.id)
        raise Untranslatable('a number is needed, got %s: %s' % (t, ast.unparse(node)[:60]))

    def expr(self, n, env):
        txt = ast.unparse(n)
        if txt in self.spec.bind:
            p = self.spec.bind[txt]
            return p, dict(self.spec.params)[p]
        if isinstance(n, ast.Constant):
            return self.const(n.value)
        if isinstance(n, ast.UnaryOp) and isinstance(n.op, ast.USub):
            a, t = self.expr(n.operand, env)
            return '(-%s)' % self.need_real(a, t, n.operand), 'R'
        if isinstance(n, ast.Tuple):
            parts = [self.expr(e, env) for e in n.elts]
            return '(%s)' % ', '.join(p for p, _ in parts), tuple(t for _, t in parts)
        if isinstance(n, ast.Subscript):
            a, ta = self.expr(n.value, env)
            if ta == 'LR' and isinstance(n.slice, ast.UnaryOp) and isinstance(n.slice.op, ast.USub) and isinstance(n.slice.operand, ast.Constant) and n.slice.operand.value == 1:
                return '(NpR.last %s)' % a, 'R'          # x[-1]
            if ta == 'LR' and isinstance(n.slice, ast.Constant) and n.slice.value == 0:
                return '(NpR.first %s)' % a, 'R'         # x[0]
            i, ti = self.expr(n.slice, env)
            if (ta, ti) == ('LR', 'LN'):
                return '(NpR.takeIdx %s %s)' % (a, i), 'LR'   # x[index array]
            raise Untranslatable('subscript %s[%s]' % (ta, ti))
        return Imp.expr(self, n, env)

    def binop(self, n, env):
        ops = {ast.Add: '+', ast.Sub: '-', ast.Mult: '*', ast.Div: '/'}
        if isinstance(n.op, ast.Pow) and isinstance(n.right, ast.Constant) and n.right.value in (2, 3, 2.0, 3.0):
            a, ta = self.expr(n.left, env)
            a = self.need_real(a, ta, n.left)
            return '(%s)' % ' * '.join([a] * int(n.right.value)), 'R'
        if type(n.op) not in ops:
            raise Untranslatable('operator in %s' % ast.unparse(n)[:60])
        a, ta = self.expr(n.left, env)
        b, tb = self.expr(n.right, env)
        if ta == 'LR' and isinstance(n.op, ast.Div):
            return '(NpR.divVS %s %s)' % (a, self.need_real(b, tb, n.right)), 'LR'       # array / scalar
        a = self.need_real(a, ta, n.left)
        b = self.need_real(b, tb, n.right)
        return '(%s %s %s)' % (a, ops[type(n.op)], b), 'R'

    def compare(self, n, env):
        if len(n.ops) != 1:
            raise Untranslatable('chained comparison')
        op = type(n.ops[0])
        left, right = n.left, n.comparators[0]
        # x is None / x is not None
        if op in (ast.Is, ast.IsNot) and isinstance(right, ast.Constant) and right.value is None:
            a, ta = self.expr(left, env)
            if ta != 'OR':
                raise Untranslatable('`is None` on %s' % ta)
            return '%s.%s' % (a, 'isNone' if op is ast.Is else 'isSome'), 'B'
        # (a, b) != (None, None)
        if op in (ast.NotEq, ast.Eq) and isinstance(left, ast.Tuple) and isinstance(right, ast.Tuple) and len(left.elts) == len(right.elts) \
                and all(isinstance(e, ast.Constant) and e.value is None for e in right.elts):
            parts = [self.expr(e, env) for e in left.elts]
            if any(t != 'OR' for _, t in parts):
                raise Untranslatable('comparison with a tuple of None on %s' % [t for _, t in parts])
            if op is ast.NotEq:
                return '(%s)' % ' || '.join('%s.isSome' % p for p, _ in parts), 'B'
            return '(%s)' % ' && '.join('%s.isNone' % p for p, _ in parts), 'B'
        a, ta = self.expr(left, env)
        b, tb = self.expr(right, env)
        if (ta, tb) == ('S', 'S') and op in (ast.Eq, ast.NotEq):
            return ('(%s == %s)' if op is ast.Eq else '(%s != %s)') % (a, b), 'B'
        sc = {ast.Lt: '<', ast.LtE: '≤', ast.Gt: '>', ast.GtE: '≥'}
        if op in sc:
            a = self.need_real(a, ta, left)
            b = self.need_real(b, tb, right)
            return 'decide (%s %s %s)' % (a, sc[op], b), 'B'
        raise Untranslatable('comparison %s' % ast.unparse(n)[:60])

    def call(self, n, env):
        f = ast.unparse(n.func)
        fns1 = {'numpy.sin': 'sin', 'numpy.cos': 'cos', 'numpy.sqrt': 'sqrt', 'numpy.exp': 'exp', 'numpy.log': 'log'}
        if f in fns1 and len(n.args) == 1 and not n.keywords:
            a, t = self.expr(n.args[0], env)
            return '(RealLike.%s %s)' % (fns1[f], self.need_real(a, t, n.args[0])), 'R'
        if f == 'numpy.arctan2' and len(n.args) == 2 and not n.keywords:
            a, ta = self.expr(n.args[0], env)
            b, tb = self.expr(n.args[1], env)
            return '(RealLike.atan2 %s %s)' % (self.need_real(a, ta, n.args[0]), self.need_real(b, tb, n.args[1])), 'R'
        if f == 'numpy.array' and len(n.args) == 1 and not n.keywords:
            a, t = self.expr(n.args[0], env)
            if t == 'LR':
                return a, t
        if f == 'numpy.unique' and len(n.args) == 1 and [k.arg for k in n.keywords] == ['return_index'] and ast.unparse(n.keywords[0].value) == 'True':
            a, t = self.expr(n.args[0], env)
            if t != 'LR':
                raise Untranslatable('unique of %s' % t)
            note = ('`numpy.unique(c, return_index=True)` on the cumulative integrals `c` (non-decreasing for a non-negative density: recorded precondition) is '
                    '`NpR.uniqueFirst`: the first element of every run of equal values, with its index')
            if note not in self.notes:
                self.notes.append(note)
            return '(NpR.uniqueFirst %s)' % a, ('LR', 'LN')
        if f == 'numpy.random.uniform' and len(n.args) == 3 and not n.keywords and self.spec.uniform_param:
            a, ta = self.expr(n.args[0], env)
            b, tb = self.expr(n.args[1], env)
            a, b = self.need_real(a, ta, n.args[0]), self.need_real(b, tb, n.args[1])
            self.notes.append('`numpy.random.uniform(a, b, size)` is a + (b − a)·%s with %s the uniform variate in [0, 1) (parameter)' % (self.spec.uniform_param, self.spec.uniform_param))
            return '(%s + (%s - %s) * %s)' % (a, b, a, self.spec.uniform_param), 'R'
        if f in self.spec.funs and len(n.args) == 1 and not n.keywords:
            a, t = self.expr(n.args[0], env)
            return '(%s %s)' % (self.spec.funs[f], self.need_real(a, t, n.args[0])), 'R'
        if f in self.spec.calls and not n.keywords:
            lean, rt, lead = self.spec.calls[f]
            args = [self.expr(a, env) for a in n.args]
            return '(%s %s)' % (lean, ' '.join(list(lead) + [a for a, _ in args])), rt
        if f in self.spec.pair_ctors and len(n.args) >= 2:
            a, ta = self.expr(n.args[0], env)
            b, tb = self.expr(n.args[1], env)
            if (ta, tb) != ('LR', 'LR'):
                raise Untranslatable('%s on %s, %s' % (f, ta, tb))
            self.notes.append('`%s(x, y, …)`: the value is the pair of node arrays handed to the spline constructor (labels are not part of it)' % f)
            return '(%s, %s)' % (a, b), ('LR', 'LR')
        if f == 'numpy.mod' and len(n.args) == 2 and not n.keywords and isinstance(n.args[1], ast.Constant) and n.args[1].value == 1:
            a, ta = self.expr(n.args[0], env)
            a = self.need_real(a, ta, n.args[0])
            self.notes.append('`numpy.mod(x, 1)` is x − ⌊x⌋')
            return '(%s - RealLike.floor %s)' % (a, a), 'R'
        # a method called on a freshly constructed object of a class whose methods are generated: `xEphemeris(a, b, c, d).met_to_phase(t)`
        if isinstance(n.func, ast.Attribute) and isinstance(n.func.value, ast.Call) and not n.keywords and not n.func.value.keywords:
            key = '%s(…).%s' % (ast.unparse(n.func.value.func), n.func.attr)
            if key in self.spec.calls:
                lean, rt, lead = self.spec.calls[key]
                cargs = [self.expr(a, env) for a in n.func.value.args]
                args = [self.expr(a, env) for a in n.args]
                return '(%s %s)' % (lean, ' '.join([self.need_real(a, t, x) for (a, t), x in zip(cargs + args, list(n.func.value.args) + list(n.args))])), rt
        raise Untranslatable('call %s' % ast.unparse(n)[:80])

    def iterable(self, n, env):
        a, t = self.expr(n, env)
        if t not in ELEM:
            raise Untranslatable('iteration over %s' % (t,))
        return a, t

    def binder(self, target, elem_t, env):
        if isinstance(target, ast.Tuple) and elem_t == 'T3' and len(target.elts) == 3 and all(isinstance(e, ast.Name) for e in target.elts):
            names = [e.id for e in target.elts]
            return '((%s) : α × α × α)' % ', '.join(names), {x: 'R' for x in names}
        raise Untranslatable('loop target %s over %s' % (ast.unparse(target), elem_t))

    # ------------------------------------------------------------ statements
    def only_logging(self, stmts):
        """assignments to names, logging calls and nested conditionals of the same kind: no effect beyond the local names"""
        for s in stmts:
            if isinstance(s, ast.Assign) and all(isinstance(t, ast.Name) for t in s.targets):
                continue
            if isinstance(s, ast.Expr) and isinstance(s.value, ast.Call) and ast.unparse(s.value.func).startswith(self.spec.skip):
                continue
            if isinstance(s, ast.Expr) and isinstance(s.value, ast.Constant):
                continue
            if isinstance(s, ast.If) and self.only_logging(list(s.body) + list(s.orelse)):
                continue
            return False
        return True

    def coerce(self, name, have, want):
        if have == want:
            return name
        if (have, want) == ('R', 'OR'):
            return '(some %s)' % name
        raise Untranslatable('%s has type %s on one path and %s on another' % (name, have, want))

    def block(self, stmts, env, tail, loop, ind):
        """as `Imp.block`, with the unwrapping of optional values: a statement that needs the number inside an optional variable is wrapped in
        a `match` (none: the Python code raises, the function yields `none`) and translated again with the variable bound"""
        if not stmts:
            return '  ' * ind + tail(env)
        try:
            return self.block1(stmts, env, tail, loop, ind)
        except NeedUnwrap as u:
            if loop is not None:
                raise Untranslatable('optional value %s needed inside a loop' % u.name)
            if env.get(u.name) != 'OR':
                raise Untranslatable('unwrap of %s : %s' % (u.name, env.get(u.name)))
            pad = '  ' * ind
            self.partial = True
            inner = self.block(stmts, dict(env, **{u.name: 'R'}), tail, loop, ind + 1)
            return '%smatch %s with\n%s| none => none\n%s| some %s =>\n%s' % (pad, u.name, pad, pad, u.name, inner)

    def block1(self, stmts, env, tail, loop, ind):
        pad = '  ' * ind
        s, rest = stmts[0], stmts[1:]
        nxt = lambda e: self.block(rest, e, tail, loop, ind)   # noqa
        txt = ast.unparse(s)
        if txt in self.spec.skip_stmts:
            self.notes.append('not part of the definition: `%s`' % txt)
            return nxt(env)
        if isinstance(s, ast.Expr) and isinstance(s.value, ast.Constant):
            return nxt(env)
        if isinstance(s, ast.Expr) and isinstance(s.value, ast.Call) and ast.unparse(s.value.func).startswith(self.spec.skip):
            return nxt(env)
        # head guard: if not <flag>: return None
        if isinstance(s, ast.If) and not s.orelse and len(s.body) == 1 and isinstance(s.body[0], ast.Return) \
                and (s.body[0].value is None or (isinstance(s.body[0].value, ast.Constant) and s.body[0].value.value is None)) \
                and ast.unparse(s.test) in self.spec.guards:
            self.notes.append('precondition: not (%s)' % ast.unparse(s.test))
            return nxt(env)
        if isinstance(s, ast.Assign) and len(s.targets) == 1:
            t = s.targets[0]
            if isinstance(t, ast.Name) and isinstance(s.value, ast.Dict) and not s.value.keys:
                return '%slet %s : %s := []\n' % (pad, t.id, self.lt('D')) + nxt(dict(env, **{t.id: 'D'}))
            if isinstance(t, ast.Name):
                v, tv = self.expr(s.value, env)
                if t.id in env and env[t.id] == 'OR' and tv == 'R':
                    # an optional variable gets a number: from here on it is bound
                    return '%slet %s : %s := %s\n' % (pad, t.id, self.lt('R'), v) + nxt(dict(env, **{t.id: 'R'}))
                return '%slet %s : %s := %s\n' % (pad, t.id, self.lt(tv), v) + nxt(dict(env, **{t.id: tv}))
            if isinstance(t, ast.Tuple) and isinstance(s.value, ast.Call) and all(isinstance(e, ast.Name) for e in t.elts):
                v, tv = self.expr(s.value, env)
                if not isinstance(tv, tuple) or len(tv) != len(t.elts):
                    raise Untranslatable('unpacking of %s' % (tv,))
                names = [e.id for e in t.elts]
                return '%slet (%s) := %s\n' % (pad, ', '.join(names), v) + nxt(dict(env, **dict(zip(names, tv))))
            if isinstance(t, ast.Tuple) and isinstance(s.value, ast.Tuple) and len(t.elts) == len(s.value.elts) and all(isinstance(e, ast.Name) for e in t.elts):
                vals = [self.expr(v, env) for v in s.value.elts]
                names = [e.id for e in t.elts]
                out = '%slet (%s) := (%s)\n' % (pad, ', '.join(names), ', '.join(v for v, _ in vals))
                return out + nxt(dict(env, **{n_: tv for n_, (_, tv) in zip(names, vals)}))
            if isinstance(t, ast.Subscript) and isinstance(t.value, ast.Name) and env.get(t.value.id) == 'D' and isinstance(t.slice, ast.Constant) \
                    and isinstance(t.slice.value, str):
                v, tv = self.expr(s.value, env)
                if tv == 'OR' and isinstance(s.value, ast.Name):
                    raise NeedUnwrap(s.value.id)
                if tv != 'R':
                    raise Untranslatable('dictionary value of type %s' % tv)
                x = t.value.id
                return '%slet %s : %s := Np.dset %s "%s" %s\n' % (pad, x, self.lt('D'), x, t.slice.value, v) + nxt(env)
            raise Untranslatable('assignment %s' % txt[:80])
        if isinstance(s, ast.AugAssign) and isinstance(s.target, ast.Name):
            n2 = ast.BinOp(left=ast.Name(id=s.target.id, ctx=ast.Load()), op=s.op, right=s.value)
            v, tv = self.expr(n2, env)
            if tv != env.get(s.target.id):
                raise Untranslatable('augmented assignment changes the type of %s' % s.target.id)
            return '%slet %s : %s := %s\n' % (pad, s.target.id, self.lt(tv), v) + nxt(env)
        if isinstance(s, ast.Return):
            if loop is not None:
                raise Untranslatable('return inside a loop')
            v, t = self.expr(s.value, env)
            self.set_rtype(t)
            self.returns.append(len(self.returns))
            return pad + ('RETURN⟪%s⟫' % v)
        if isinstance(s, ast.If) and ast.unparse(s.test) in self.spec.opaque_defaults:
            self.notes.append('not part of the definition: `if %s: …`' % ast.unparse(s.test))
            return nxt(env)
        # if x is None: v = A  else: v = B   (x optional): a case distinction on x, with x bound in the second branch
        if isinstance(s, ast.If) and isinstance(s.test, ast.Compare) and isinstance(s.test.left, ast.Name) and env.get(s.test.left.id) == 'OR' \
                and len(s.test.ops) == 1 and isinstance(s.test.ops[0], ast.Is) and isinstance(s.test.comparators[0], ast.Constant) \
                and s.test.comparators[0].value is None and len(s.body) == 1 and len(s.orelse) == 1 \
                and all(isinstance(b, ast.Assign) and len(b.targets) == 1 and isinstance(b.targets[0], ast.Name) for b in (s.body[0], s.orelse[0])) \
                and s.body[0].targets[0].id == s.orelse[0].targets[0].id:
            x, tgt = s.test.left.id, s.body[0].targets[0].id
            a, ta = self.expr(s.body[0].value, env)
            b, tb = self.expr(s.orelse[0].value, dict(env, **{x: 'R'}))
            if ta != tb:
                raise Untranslatable('branches of different types: %s, %s' % (ta, tb))
            return '%slet %s : %s := match %s with\n%s  | none => %s\n%s  | some %s => %s\n' % (pad, tgt, self.lt(ta), x, pad, a, pad, x, b) + nxt(dict(env, **{tgt: ta}))
        if isinstance(s, ast.If):
            # the default idiom: if x is None: x = e
            if not s.orelse and len(s.body) == 1 and isinstance(s.body[0], ast.Assign) and isinstance(s.test, ast.Compare) \
                    and isinstance(s.test.left, ast.Name) and len(s.test.ops) == 1 and isinstance(s.test.ops[0], ast.Is) \
                    and isinstance(s.test.comparators[0], ast.Constant) and s.test.comparators[0].value is None \
                    and len(s.body[0].targets) == 1 and isinstance(s.body[0].targets[0], ast.Name) and s.body[0].targets[0].id == s.test.left.id \
                    and env.get(s.test.left.id) == 'OR':
                x = s.test.left.id
                v, tv = self.expr(s.body[0].value, env)
                if tv != 'R':
                    raise Untranslatable('default of type %s' % tv)
                return '%slet %s : %s := %s.getD %s\n' % (pad, x, self.lt('R'), x, v) + nxt(dict(env, **{x: 'R'}))
            if not (_escapes(s.body) or _escapes(s.orelse)):
                assigned0 = _assigned(list(s.body) + list(s.orelse))
                live0 = _reads(rest) | set(self.spec.live) | getattr(self, 'outer_live', set())
                if not [n_ for n_ in assigned0 if n_ in live0 or (loop is not None and n_ in env)] and self.only_logging(list(s.body) + list(s.orelse)):
                    # nothing the rest of the function can observe: logging and scratch variables
                    self.notes.append('a block without observable effect is skipped: `if %s: …`' % ast.unparse(s.test)[:60])
                    return nxt(env)
            c, tc = self.expr(s.test, env)
            if tc != 'B':
                raise Untranslatable('condition of type %s: %s' % (tc, ast.unparse(s.test)[:60]))
            if _escapes(s.body) or _escapes(s.orelse):
                a = self.block(list(s.body) + rest, env, tail, loop, ind + 1)
                b = self.block(list(s.orelse) + rest, env, tail, loop, ind + 1)
                return '%sif %s then (\n%s)\n%selse (\n%s)' % (pad, c, a, pad, b)
            assigned = _assigned(list(s.body) + list(s.orelse))
            outer = getattr(self, 'outer_live', set())
            live = _reads(rest) | set(self.spec.live) | outer
            # what the conditional can change for the rest of the function: the variables it assigns that are read afterwards
            # (inside a loop body every state variable is read by the next iteration)
            names = [n_ for n_ in assigned if n_ in live or (loop is not None and n_ in env)]
            if not names:
                raise Untranslatable('conditional without effect: %s' % ast.unparse(s.test)[:60])
            # merged types after the conditional: a variable first bound inside is optional afterwards (none = not bound)
            pre = ''
            env0 = dict(env)
            for n_ in names:
                if n_ not in env0:
                    pre += '%slet %s : %s := none\n' % (pad, n_, self.lt('OR'))
                    env0[n_] = 'OR'
            merged = {}
            ta_env, tb_env = {}, {}

            def grab(store):
                def f(e):
                    store.update(e)
                    return '⟪TUPLE⟫'
                return f
            self.outer_live = live
            try:
                a = self.block(list(s.body), env0, grab(ta_env), None if loop is None else (loop[0], False), ind + 1)
                b = self.block(list(s.orelse), env0, grab(tb_env), None if loop is None else (loop[0], False), ind + 1)
            finally:
                self.outer_live = outer
            for n_ in names:
                ts = {ta_env.get(n_, env0[n_]), tb_env.get(n_, env0[n_]), env0[n_]} if n_ in env else {ta_env.get(n_, env0[n_]), tb_env.get(n_, env0[n_])}
                if len(ts) == 1:
                    merged[n_] = ts.pop()
                elif ts == {'R', 'OR'}:
                    merged[n_] = 'OR'
                else:
                    raise Untranslatable('%s has types %s after the conditional' % (n_, sorted(map(str, ts))))
            tup = lambda e: '(%s)' % ', '.join(self.coerce(n_, e.get(n_, env0[n_]), merged[n_]) for n_ in names) if len(names) > 1 \
                else self.coerce(names[0], e.get(names[0], env0[names[0]]), merged[names[0]])   # noqa
            a = a.replace('⟪TUPLE⟫', tup(ta_env))
            b = b.replace('⟪TUPLE⟫', tup(tb_env))
            lhs = names[0] if len(names) == 1 else '(%s)' % ', '.join(names)
            return pre + '%slet %s := if %s then (\n%s)\n%s  else (\n%s)\n' % (pad, lhs, c, a, pad, b) + nxt(dict(env0, **merged))
        if isinstance(s, ast.For) and not s.orelse:
            it, tit = self.iterable(s.iter, env)
            et = ELEM[tit]
            b, ext = self.binder(s.target, et, env)
            state = [n_ for n_ in _assigned(s.body) if n_ in env]
            if not state:
                raise Untranslatable('loop without state')
            st_t = ' × '.join(('(%s)' % self.lt(env[n_])) for n_ in state)
            inner_env = dict(env, **ext)
            body = self.block(list(s.body), inner_env, lambda e: self.state_tuple(state, None), (state, False), ind + 2)
            pat = self.state_tuple(state, None)
            out = '%slet %s := Np.loop %s %s fun (st : %s) %s =>\n%s    let %s := st\n%s\n' % (pad, pat, pat, it, st_t, b, pad, pat, body)
            return out + nxt(env)
        raise Untranslatable('statement %s' % txt[:80])

    def function(self):
        sp = self.spec
        self.partial = False
        self.returns = []
        src = textwrap.dedent(inspect.getsource(sp.obj()))
        fn = ast.parse(src).body[0]
        env = {n_: t for n_, t in sp.params}

        def no_return(e):
            raise Untranslatable('the function ends without a result')
        body = self.block(list(fn.body), env, no_return, None, 1)
        rt = self.lt(self.rtype)
        if self.partial:
            body = body.replace('RETURN⟪', '(some ').replace('⟫', ')')
            rt = 'Option (%s)' % rt
        else:
            body = body.replace('RETURN⟪', '').replace('⟫', '')
        sig = ' '.join('(%s : %s)' % (n_, self.lt(t)) for n_, t in sp.params)
        doc = '/-- `%s.%s`%s%s -/\n' % (sp.module, sp.qual, (' — ' + sp.note) if sp.note else '', ''.join('; ' + x for x in self.notes))
        return doc + 'def %s {α : Type} [RealLike α] %s : %s :=\n%s\n' % (sp.lean, sig, rt, body)


class RSpec(ImpSpec):
    def __init__(self, *a, guards=(), skip_stmts=(), live=(), funs=None, pair_ctors=(), opaque_defaults=(), uniform_param=None, **k):
        ImpSpec.__init__(self, *a, **k)
        self.uniform_param = uniform_param         # the parameter that stands for the uniform variate of `numpy.random.uniform(a, b, size)`
        self.funs = dict(funs or {})               # call text of a function-valued attribute (self.cdf) -> lean parameter of type α → α
        self.pair_ctors = tuple(pair_ctors)        # constructors whose value is the pair of their first two (array) arguments
        self.opaque_defaults = tuple(opaque_defaults)   # conditions of `if <cond>: <opaque name> = …` blocks that do not take part in the value
        self.guards = tuple(guards)          # head conditions `if <cond>: return None` recorded as preconditions
        self.skip_stmts = tuple(skip_stmts)  # statements (source text) about arrays the definition does not interpret; what they define enters through `bind`
        self.live = tuple(live)


SPECS = [
    RSpec('ixpeobssim.srcmodel.polarization', 'harmonic_addition', 'harmonic_addition', [('params', 'LT3')],
          note='C20: the accumulators of the harmonic addition theorem (flux, numerator and denominator of the phase, the double loop for the squared amplitude)'),
    # --- the tabulated-pdf sampler (core/spline.py, core/rand.py, C15): the partial integrals `self.integral(xmin, x_i)` are the parameter `ints`
    RSpec('ixpeobssim.core.spline', 'xUnivariateSpline.build_cdf', 'build_cdf', [('x', 'LR'), ('ints', 'LR')],
          bind={'self.x': 'x', '[self.integral(_xmin, _xbar) for _xbar in self.x]': 'ints'}, skip_stmts=('_xmin = self.xmin()',),
          pair_ctors=('spline_class',), opaque_defaults=('spline_class is None',),
          note='C15: the nodes of the cumulative function: (x_i, I_i / I_last) with I_i the integral of the density up to x_i'),
    RSpec('ixpeobssim.core.spline', 'xUnivariateSpline.build_ppf', 'build_ppf', [('x', 'LR'), ('ints', 'LR')],
          bind={'self.x': 'x', 'numpy.array([self.integral(_xmin, _xbar) for _xbar in self.x])': 'ints'}, skip_stmts=('_xmin = self.xmin()',),
          pair_ctors=('spline_class',), opaque_defaults=('spline_class is None',),
          note='C15: the nodes of the quantile function: the distinct cumulative values, normalised, against the first abscissa that reaches each of them'),
    RSpec('ixpeobssim.core.rand', 'xUnivariateGenerator.rvs_bounded', 'rvs_bounded', [('cdf', 'F'), ('ppf', 'F'), ('rvmin', 'OR'), ('rvmax', 'OR'), ('u01', 'R')],
          funs={'self.cdf': 'cdf', 'self.ppf': 'ppf'}, uniform_param='u01',
          note='C15: bounded sampling: the quantile function evaluated at a uniform variate between cdf(rvmin) and cdf(rvmax) (0 and 1 for missing bounds)'),
    # --- the ephemeris (srcmodel/ephemeris.py, C17): every method takes the attributes of `self` as leading parameters (`self_…`: a local of the same name must not capture them)
    RSpec('ixpeobssim.srcmodel.ephemeris', 'xEphemeris._dt', 'ephemeris_dt', [('self_met0', 'R'), ('met', 'R')], bind={'self.met0': 'self_met0'}),
    RSpec('ixpeobssim.srcmodel.ephemeris', 'xEphemeris.nu', 'ephemeris_nu', [('self_met0', 'R'), ('self_nu0', 'R'), ('self_nudot0', 'R'), ('self_nuddot', 'R'), ('met', 'R')],
          bind={'self.nu0': 'self_nu0', 'self.nudot0': 'self_nudot0', 'self.nuddot': 'self_nuddot'}, calls={'self._dt': ('ephemeris_dt', 'R', ['self_met0'])}),
    RSpec('ixpeobssim.srcmodel.ephemeris', 'xEphemeris.nudot', 'ephemeris_nudot', [('self_met0', 'R'), ('self_nudot0', 'R'), ('self_nuddot', 'R'), ('met', 'R')],
          bind={'self.nudot0': 'self_nudot0', 'self.nuddot': 'self_nuddot'}, calls={'self._dt': ('ephemeris_dt', 'R', ['self_met0'])}),
    RSpec('ixpeobssim.srcmodel.ephemeris', 'xEphemeris.met_to_phase', 'ephemeris_met_to_phase', [('self_met0', 'R'), ('self_nu0', 'R'), ('self_nudot0', 'R'), ('self_nuddot', 'R'), ('met', 'R')],
          bind={'self.nu0': 'self_nu0', 'self.nudot0': 'self_nudot0', 'self.nuddot': 'self_nuddot'}, calls={'self._dt': ('ephemeris_dt', 'R', ['self_met0'])}),
    RSpec('ixpeobssim.srcmodel.ephemeris', 'xEphemeris.fold', 'ephemeris_fold',
          [('self_met0', 'R'), ('self_nu0', 'R'), ('self_nudot0', 'R'), ('self_nuddot', 'R'), ('met', 'R'), ('start_met', 'R'), ('phi0', 'R')],
          bind={'self.nuddot': 'self_nuddot'},
          calls={'self.nu': ('ephemeris_nu', 'R', ['self_met0', 'self_nu0', 'self_nudot0', 'self_nuddot']), 'self.nudot': ('ephemeris_nudot', 'R', ['self_met0', 'self_nudot0', 'self_nuddot']),
                 'xEphemeris(…).met_to_phase': ('ephemeris_met_to_phase', 'R', [])},
          note='C17: the pulse phase of a time: the ephemeris re-referenced at the start of the observation, evaluated at the time, plus the phase offset, modulo one'),
    RSpec('ixpeobssim.evt.event', 'xEventFile.average_deadtime_per_event', 'average_deadtime_per_event', [('ONTIME', 'R'), ('LIVETIME', 'R'), ('num_events', 'R')],
          bind={"self.primary_header.get('ONTIME')": 'ONTIME', "self.primary_header.get('LIVETIME')": 'LIVETIME', 'self.num_events()': 'num_events'},
          skip_stmts=('min_delta_time = numpy.diff(self.time_data()).min()',),
          note='C10: (ONTIME − LIVETIME) of the input header over the number of events of the input file'),
    RSpec('ixpeobssim.evt.subselect', 'xEventSelect.time_selected', 'time_selected', [('tmin', 'OR'), ('tmax', 'OR')],
          bind={"self.get('tmin')": 'tmin', "self.get('tmax')": 'tmax'}),
    RSpec('ixpeobssim.evt.subselect', 'xEventSelect.phase_selected', 'phase_selected', [('phasemin', 'OR'), ('phasemax', 'OR')],
          bind={"self.get('phasemin')": 'phasemin', "self.get('phasemax')": 'phasemax'}),
    RSpec('ixpeobssim.evt.subselect', 'xEventSelect._time_header_keywords', 'time_header_keywords',
          [('tmin', 'OR'), ('tmax', 'OR'), ('phasemin', 'OR'), ('phasemax', 'OR'), ('ltimealg', 'S'),
           ('TSTART', 'R'), ('TSTOP', 'R'), ('ONTIME', 'R'), ('average_dtpe', 'R'), ('num_events', 'R'), ('livetime_sum', 'R')],
          bind={"self.get('tmin')": 'tmin', "self.get('tmax')": 'tmax', "self.get('phasemin')": 'phasemin', "self.get('phasemax')": 'phasemax',
                "self.get('ltimealg')": 'ltimealg', "primary_header['TSTART']": 'TSTART', "primary_header['TSTOP']": 'TSTOP',
                "primary_header.get('TSTART')": 'TSTART', "primary_header.get('TSTOP')": 'TSTOP', "primary_header.get('ONTIME')": 'ONTIME',
                'self.event_file.average_deadtime_per_event()': 'average_dtpe', 'mask.sum()': 'num_events', 'livetime[mask].sum()': 'livetime_sum'},
          calls={'self.time_selected': ('time_selected', 'B', ['tmin', 'tmax']), 'self.phase_selected': ('phase_selected', 'B', ['phasemin', 'phasemax'])},
          guards=("not self.get('ltimeupdate')",),
          skip_stmts=('primary_header = self.event_file.primary_header', 'livetime = 1e-06 * self.event_file.livetime_data()',
                      'total_livetime_sum = livetime.sum()'),
          note='C10: the keywords written by `xpselect --ltimeupdate` as an insertion-ordered dictionary; parameters: the bounds, the algorithm, '
               'TSTART / TSTOP / ONTIME of the input header, the average dead time per event, the number of selected events and the sum of their LIVETIME (s); '
               '`none` where the Python code raises (a name that was never bound, arithmetic on None)'),
]


def translate(sp):
    tr = ImpR(sp)
    return tr.function(), tr.notes


def lean_file(golden):
    out = ['import IxpeVerif.Num', 'import IxpeVerif.Model.NpR', '/-! Generated by translator/realimp.py from the /repo working tree — do not edit.',
           'Loops, conditionals, optional values and literal-key dictionaries of the scalar bookkeeping, statement by statement, over `RealLike`. -/',
           'set_option linter.unusedVariables false', 'namespace Np',
           '/-- a `for` loop: the state after the body has run for every element, in order -/',
           'def loopR {σ β : Type} (init : σ) (l : List β) (f : σ → β → σ) : σ := l.foldl f init',
           '/-- `d[k] = v` on an insertion-ordered dictionary with literal keys -/',
           'def dset {β : Type} (d : List (String × β)) (k : String) (v : β) : List (String × β) :=',
           '  if d.any (fun p => p.1 == k) then d.map (fun p => if p.1 == k then (k, v) else p) else d ++ [(k, v)]',
           'end Np', '', 'namespace Gen.ImpR', '']
    status = {}
    for sp in SPECS:
        key = 'impr:' + sp.lean
        try:
            txt, notes = translate(sp)
            txt = txt.replace('Np.loop ', 'Np.loopR ')
            status[sp.lean] = dict(tie='translated', differs_from_golden=golden.get(key) not in (None, txt), notes=notes, qual=sp.qual, module=sp.module)
            golden[key] = txt
        except Exception as e:
            txt = golden.get(key)
            if txt is None:
                raise
            status[sp.lean] = dict(tie='correspondence-only', reason='%s: %s' % (type(e).__name__, e), qual=sp.qual, module=sp.module)
        out.append(txt)
    out += ['end Gen.ImpR', '']
    return '\n'.join(out), status


if __name__ == '__main__':
    import sys
    g = {}
    txt, st = lean_file(g)
    print(txt)
    print(st, file=sys.stderr)
