"""Per-row translator of `xEventSelect.select()` (evt/subselect.py, C09): the boolean mask the method assembles, read for one row.

The method builds one mask out of several stages (time / phase / direct array, energy, cone, region, source identifiers), each an optional bound or
a flag away from `numpy.ones`; the stages multiply into `mask` in place.  Read per row this is a Boolean expression in the row's values and the
options; `Props/C09.lean` proves it equal to the model `Sel.mask` (which `select_iff_predicate` relates to the documented predicate).

Reading of the source (anything else raises Untranslatable → the committed golden text is used, tie reported as `correspondence-only`):
  self._validate()                                   recorded precondition (the model of `_validate` is `Sel.validate`)
  header_keywords / _keywords / backscal statements  not part of the mask (C10 decides the keywords): skipped and recorded
  if self.time_selected(): mask = self._time_selection_mask() elif self.phase_selected(): … elif self.mask_selected(): mask = self._direct_selection_mask()
  else: mask = numpy.ones(…)                          the first stage: the generated time / phase mask, the row's entry of the array, or true
  x, y = self.get('a'), self.get('b')  /  x = self.get('a')          optional parameters
  m = numpy.ones(n, dtype=bool)                       a new stage, true
  if x is not None: m *= (<column> <op> x)            bound, if given
  if self.get('flag'): m = numpy.logical_not(m)       inversion of the stage
  mask *= m                                           conjunction
  if self._acceptance_cone_required(): …              the cone stage: `sep = degrees_to_arcmin(angular_separation(ra, dec, ra0, dec0))` is the row parameter
                                                      `sep` (`mcsep` under `--mc`): the spherical geometry is abstract, checked by the oracle
  regfile = self.get('regfile'); if regfile is not None: reg_mask = self.event_file.ds9_region_file_mask(regfile, mc=self.get('mc')) …
                                                      the region stage: the row parameter `inreg` (`mcinreg` under `--mc`)
  for srcid in self.get('mcsrcid'): mask *= (self.event_file.srcid_data() == srcid)       every listed identifier
  self.event_file.write_fits_selected(mask, …)        the value: the rows written are those with mask true
"""
import ast
import inspect
import importlib
import textwrap

from py2lean import Untranslatable

OPS = {ast.GtE: lambda c, b: '%s ≤ %s' % (b, c), ast.Gt: lambda c, b: '%s < %s' % (b, c), ast.Lt: lambda c, b: '%s < %s' % (c, b), ast.LtE: lambda c, b: '%s ≤ %s' % (c, b)}
# columns: source text -> lean expression for one row
COLUMNS = {"self.event_file.energy_data(self.get('mc'))": '(if mc then mcenergy else energy)', 'sep': '(if mc then mcsep else sep)'}
OPTIONS = ['emin', 'emax', 'rad', 'innerrad']
FLAGS = ['einvert', 'mc', 'reginvert']
SKIP_PREFIX = ('header_keywords', '_keywords', 'backscal', 'total_num_events', 'history')
# the statements that feed the abstract separation: they must read exactly like this (what reaches `angular_separation` is part of the tie)
EXACT = ("ra, dec = self.event_file.sky_position_data(self.get('mc'))", "ra0, dec0 = (self.get('ra'), self.get('dec'))", "rad, innerrad = (self.get('rad'), self.get('innerrad'))")


def getname(n):
    if isinstance(n, ast.Call) and ast.unparse(n.func) == 'self.get' and len(n.args) == 1 and isinstance(n.args[0], ast.Constant):
        return n.args[0].value
    return None


class Sel:
    def __init__(self):
        self.notes = []
        self.lines = []
        self.env = {}        # python name -> option name
        self.stages = set()  # python names of stage masks

    def skip(self, why):
        if why not in self.notes:
            self.notes.append(why)

    def stmt(self, s, target='mask'):
        txt = ast.unparse(s)
        if isinstance(s, ast.Expr) and isinstance(s.value, ast.Constant):
            return
        if isinstance(s, ast.Expr) and isinstance(s.value, ast.Call) and ast.unparse(s.value.func).startswith('logger.'):
            return
        if txt == 'self._validate()':
            self.skip('precondition: `_validate()` passes (model: Sel.validate)')
            return
        if txt in EXACT[:2]:
            self.skip('the separation is computed from `sky_position_data(mc)` and the requested centre `(ra, dec)` (defaulted to the WCS reference in `_process_kwargs`)')
            return
        if any(txt.startswith(p) for p in SKIP_PREFIX):
            self.skip('the header keywords (BACKSCAL, time keywords) are not part of the mask')
            return
        # the first stage
        if isinstance(s, ast.If) and ast.unparse(s.test) == 'self.time_selected()':
            self.first_stage(s)
            return
        # options
        if isinstance(s, ast.Assign) and len(s.targets) == 1:
            t, v = s.targets[0], s.value
            names = [t] if isinstance(t, ast.Name) else (list(t.elts) if isinstance(t, ast.Tuple) else None)
            vals = [v] if isinstance(t, ast.Name) else (list(v.elts) if isinstance(v, ast.Tuple) else None)
            if names and vals and len(names) == len(vals) and all(isinstance(x, ast.Name) for x in names) and all(getname(x) in OPTIONS + ['regfile'] for x in vals):
                for a_, b_ in zip(names, vals):
                    self.env[a_.id] = getname(b_)
                return
            # a new stage: m = numpy.ones(n, dtype=bool)
            if isinstance(t, ast.Name) and isinstance(v, ast.Call) and ast.unparse(v.func) == 'numpy.ones':
                self.stages.add(t.id)
                self.lines.append('let %s := true' % t.id)
                return
            if txt == 'sep = degrees_to_arcmin(angular_separation(ra, dec, ra0, dec0))':
                self.skip('`degrees_to_arcmin(angular_separation(ra, dec, ra0, dec0))` of the measured (true, under `--mc`) position is the row parameter `sep` (`mcsep`)')
                return
            if txt == "reg_mask = self.event_file.ds9_region_file_mask(regfile, mc=self.get('mc'))":
                self.stages.add('reg_mask')
                self.lines.append('let reg_mask := (if mc then mcinreg else inreg)')
                self.skip('`ds9_region_file_mask(regfile, mc=…)` is the row parameter `inreg` (`mcinreg`)')
                return
        # if x is not None: m *= (col op x)
        if isinstance(s, ast.If) and not s.orelse and isinstance(s.test, ast.Compare) and len(s.test.ops) == 1 and isinstance(s.test.ops[0], ast.IsNot) \
                and isinstance(s.test.left, ast.Name) and s.test.left.id in self.env and isinstance(s.test.comparators[0], ast.Constant) and s.test.comparators[0].value is None:
            opt = self.env[s.test.left.id]
            if opt == 'regfile':
                self.lines.append('let mask := if useReg then (')
                inner = Sel()
                inner.env, inner.stages = self.env, self.stages
                for b in s.body:
                    inner.stmt(b)
                self.notes += [x for x in inner.notes if x not in self.notes]
                self.lines += ['    ' + x for x in inner.lines] + ['    mask) else mask']
                return
            if len(s.body) == 1 and isinstance(s.body[0], ast.AugAssign) and isinstance(s.body[0].op, (ast.Mult, ast.BitAnd)) and isinstance(s.body[0].target, ast.Name) \
                    and (s.body[0].target.id in self.stages or s.body[0].target.id == 'mask') and isinstance(s.body[0].value, ast.Compare) \
                    and len(s.body[0].value.ops) == 1 and type(s.body[0].value.ops[0]) in OPS and isinstance(s.body[0].value.comparators[0], ast.Name) \
                    and s.body[0].value.comparators[0].id == s.test.left.id:
                col = ast.unparse(s.body[0].value.left)
                if col not in COLUMNS:
                    raise Untranslatable('column %s' % col)
                m = s.body[0].target.id
                self.lines.append('let %s := optAnd %s (fun b => decide (%s)) %s' % (m, opt, OPS[type(s.body[0].value.ops[0])](COLUMNS[col], 'b'), m))
                return
        # if self.get('flag'): m = numpy.logical_not(m)
        if isinstance(s, ast.If) and not s.orelse and getname(s.test) in FLAGS:
            flag = getname(s.test)
            kept = [b for b in s.body if not any(ast.unparse(b).startswith(p) for p in SKIP_PREFIX)]
            if len(kept) == 1 and isinstance(kept[0], ast.Assign) and isinstance(kept[0].targets[0], ast.Name) and kept[0].targets[0].id in self.stages \
                    and ast.unparse(kept[0].value) == 'numpy.logical_not(%s)' % kept[0].targets[0].id:
                m = kept[0].targets[0].id
                if len(kept) != len(s.body):
                    self.skip('the header keywords (BACKSCAL, time keywords) are not part of the mask')
                self.lines.append('let %s := invIf %s %s' % (m, flag, m))
                return
        # mask *= m
        if isinstance(s, ast.AugAssign) and isinstance(s.op, (ast.Mult, ast.BitAnd)) and isinstance(s.target, ast.Name) and s.target.id == 'mask' \
                and isinstance(s.value, ast.Name) and s.value.id in self.stages:
            self.lines.append('let mask := mask && %s' % s.value.id)
            return
        # the cone stage
        if isinstance(s, ast.If) and not s.orelse and ast.unparse(s.test) == 'self._acceptance_cone_required()':
            self.lines.append('let mask := if (rad.isSome || innerrad.isSome) then (')
            inner = Sel()
            inner.env, inner.stages = self.env, self.stages
            for b in s.body:
                inner.stmt(b)
            self.notes += [x for x in inner.notes if x not in self.notes]
            self.lines += ['    ' + x for x in inner.lines] + ['    mask) else mask']
            self.skip('`_acceptance_cone_required()` is `(rad, innerrad) != (None, None)`')
            return
        # for srcid in self.get('mcsrcid'): mask *= (self.event_file.srcid_data() == srcid)
        if isinstance(s, ast.For) and getname(s.iter) == 'mcsrcid' and isinstance(s.target, ast.Name) and len(s.body) == 1 \
                and ast.unparse(s.body[0]) == 'mask *= self.event_file.srcid_data() == %s' % s.target.id:
            self.lines.append('let mask := mask && mcsrcid.all (· == src)')
            return
        if txt.startswith('self.event_file.write_fits_selected(mask, '):
            self.lines.append('mask')
            return
        if txt == "return self.get('outfile')":
            return
        raise Untranslatable('statement %s' % txt[:90])

    def first_stage(self, s):
        """if time_selected: mask = time mask … elif phase_selected: … elif mask_selected: … else: ones"""
        branches = []
        cur = s
        while True:
            cond = ast.unparse(cur.test)
            body = [b for b in cur.body if not any(ast.unparse(b).startswith(p) for p in SKIP_PREFIX)
                    and not (isinstance(b, ast.If) and ast.unparse(b.test) == '_keywords is not None')]
            if len(body) != 1 or not (isinstance(body[0], ast.Assign) and ast.unparse(body[0].targets[0]) == 'mask'):
                raise Untranslatable('first stage, branch %s' % cond)
            val = ast.unparse(body[0].value)
            branches.append((cond, val))
            if len(cur.orelse) == 1 and isinstance(cur.orelse[0], ast.If):
                cur = cur.orelse[0]
                continue
            if len(cur.orelse) == 1 and isinstance(cur.orelse[0], ast.Assign) and ast.unparse(cur.orelse[0].targets[0]) == 'mask' \
                    and ast.unparse(cur.orelse[0].value.func) == 'numpy.ones':
                branches.append((None, 'true'))
                break
            raise Untranslatable('first stage, else branch')
        want = [('self.time_selected()', 'self._time_selection_mask()'), ('self.phase_selected()', 'self._phase_selection_mask()'),
                ('self.mask_selected()', 'self._direct_selection_mask()'), (None, 'true')]
        if branches != want:
            raise Untranslatable('first stage: %s' % branches)
        self.skip('the time keywords computed alongside the first stage are not part of the mask (C10)')
        self.lines.append('let mask := if (tmin.isSome || tmax.isSome) then time_selection_mask time tmin tmax tinvert')
        self.lines.append('  else if (phasemin.isSome || phasemax.isSome) then phase_selection_mask phase phasemin phasemax phaseinvert')
        self.lines.append('  else if useMask then inmask else true')
        self.skip('`time_selected()` / `phase_selected()` are `(a, b) != (None, None)` (generated: Gen.ImpR.time_selected, phase_selected); `mask_selected()` is `useMask`, '
                  '`_direct_selection_mask()` the row entry `inmask` of the array read from the file')


def translate():
    mod = importlib.import_module('ixpeobssim.evt.subselect')
    fn = ast.parse(textwrap.dedent(inspect.getsource(mod.xEventSelect.select))).body[0]
    tr = Sel()
    for s in fn.body:
        tr.stmt(s)
    if not tr.lines or tr.lines[-1] != 'mask':
        raise Untranslatable('the method does not end by writing the selected rows')
    sig = ('(time phase energy mcenergy sep mcsep : α) (inreg mcinreg inmask : Bool) (src : Int) (tmin tmax : Option α) (tinvert : Bool) '
           '(phasemin phasemax : Option α) (phaseinvert : Bool) (emin emax : Option α) (einvert mc : Bool) (rad innerrad : Option α) (useReg reginvert : Bool) '
           '(mcsrcid : List Int) (useMask : Bool)')
    doc = '/-- `ixpeobssim.evt.subselect.xEventSelect.select`, the mask read for one row — %s -/\n' % '; '.join(tr.notes)
    body = textwrap.indent('\n'.join(tr.lines), '  ')
    return doc + 'def select_row {α : Type} [LT α] [LE α] [DecidableRel (α := α) (· < ·)] [DecidableRel (α := α) (· ≤ ·)] %s : Bool :=\n%s\n' % (sig, body), tr.notes


def lean_file(golden):
    out = ['import IxpeVerif.Gen.Masks', '/-! Generated by translator/selecttrans.py from the /repo working tree — do not edit. -/', 'set_option linter.unusedVariables false', 'namespace Gen', '',
           '/-- `if o is not None: m *= p(o)`: a bound, if given -/',
           'def optAnd {α : Type} (o : Option α) (p : α → Bool) (m : Bool) : Bool := match o with | some b => m && p b | none => m',
           '/-- `if flag: m = numpy.logical_not(m)` -/', 'def invIf (flag m : Bool) : Bool := if flag then !m else m', '']
    status = {}
    key = 'select:select_row'
    try:
        txt, notes = translate()
        status['select_row'] = dict(tie='translated', differs_from_golden=golden.get(key) not in (None, txt), notes=notes, qual='xEventSelect.select', module='ixpeobssim.evt.subselect')
        golden[key] = txt
    except Exception as e:
        txt = golden.get(key)
        if txt is None:
            raise
        status['select_row'] = dict(tie='correspondence-only', reason='%s: %s' % (type(e).__name__, e), qual='xEventSelect.select', module='ixpeobssim.evt.subselect')
    out += [txt, 'end Gen', '']
    return '\n'.join(out), status


if __name__ == '__main__':
    import sys
    txt, st = lean_file({})
    print(txt)
    print(st, file=sys.stderr)
