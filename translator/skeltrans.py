"""Effect-skeleton translator (T-tie for the *orchestration* code): a method that is a sequence of calls of other methods of the same object,
guarded by options — `xEventList._finalize` (evt/event.py) — becomes a Lean definition over an abstract state `σ`, parametrised by one function
per method it calls (`Gen/Skel.lean`).  What is tied is the order of the steps, their guards and the arguments they are handed; what each step
does is the business of the models of the individual methods (`Props/C04.lean` instantiates the skeleton with them and proves the composition
equal to the hand model of the whole).

Subset (anything else raises Untranslatable → the committed golden text is used and the tie is reported as `correspondence-only`):
  docstrings, `logger.*` calls; `x = kwargs.get('<option>')` for a declared option; `if <cond>: return` (the state as it is);
  `self.<method>(<args>)` as a statement (state update); `if <cond>: self.<method>(<args>)`;
  conditions: `self.<query>() == 0`, `kwargs.get('<bool option>')`, a name bound to an option, `<numeric option> > 0.0`;
  arguments: names bound to declared options; other arguments (`irf_set`, `**kwargs`) are opaque and recorded.
"""
import ast
import inspect
import importlib
import textwrap

from py2lean import Untranslatable

LEAN_T = {'I': 'Int', 'B': 'Bool', 'G': 'G'}


class SkelSpec:
    def __init__(self, module, qual, lean, options, opaque=(), note=''):
        self.module, self.qual, self.lean = module, qual, lean
        self.options = dict(options)      # option name -> 'I' | 'B' | 'G'
        self.opaque = tuple(opaque)       # argument texts that are passed through uninterpreted
        self.note = note

    def obj(self):
        o = importlib.import_module(self.module)
        for part in self.qual.split('.'):
            o = getattr(o, part)
        return o


class Skel:
    def __init__(self, spec):
        self.spec = spec
        self.ops = []          # (name, [arg types], result) in order of first appearance; result 'σ' (update) or 'I' (query)
        self.notes = []
        self.used = []

    def op(self, name, argt, res):
        for n_, a_, r_ in self.ops:
            if n_ == name:
                if (a_, r_) != (argt, res):
                    raise Untranslatable('method %s used with two signatures' % name)
                return
        self.ops.append((name, argt, res))

    def value(self, n, env):
        """(lean text, type) of an argument / operand"""
        txt = ast.unparse(n)
        if isinstance(n, ast.Name) and n.id in env:
            return n.id, env[n.id]
        if isinstance(n, ast.Call) and ast.unparse(n.func) == 'kwargs.get' and len(n.args) == 1 and isinstance(n.args[0], ast.Constant) \
                and n.args[0].value in self.spec.options:
            k = n.args[0].value
            if k not in self.used:
                self.used.append(k)
            return k, self.spec.options[k]
        raise Untranslatable('value %s' % txt[:60])

    def cond(self, n, env):
        txt = ast.unparse(n)
        # self.<query>() == 0
        if isinstance(n, ast.Compare) and len(n.ops) == 1 and isinstance(n.ops[0], ast.Eq) and isinstance(n.comparators[0], ast.Constant) \
                and n.comparators[0].value == 0 and isinstance(n.left, ast.Call) and isinstance(n.left.func, ast.Attribute) \
                and isinstance(n.left.func.value, ast.Name) and n.left.func.value.id == 'self' and not n.left.args:
            q = n.left.func.attr
            self.op(q, [], 'I')
            return 'decide (ops.%s self = 0)' % q
        # <numeric option> > 0.0
        if isinstance(n, ast.Compare) and len(n.ops) == 1 and isinstance(n.ops[0], ast.Gt) and isinstance(n.comparators[0], ast.Constant) \
                and n.comparators[0].value == 0:
            v, t = self.value(n.left, env)
            if t != 'I':
                raise Untranslatable('comparison of %s' % t)
            return 'decide (%s > 0)' % v
        v, t = self.value(n, env)
        if t != 'B':
            raise Untranslatable('condition %s of type %s' % (txt[:60], t))
        return v

    def call(self, n, env):
        """self.<method>(args) -> lean text of the new state"""
        if not (isinstance(n, ast.Call) and isinstance(n.func, ast.Attribute) and isinstance(n.func.value, ast.Name) and n.func.value.id == 'self'):
            raise Untranslatable('statement %s' % ast.unparse(n)[:60])
        args, types = [], []
        for a in list(n.args) + [k.value for k in n.keywords]:
            txt = ast.unparse(a)
            if txt in self.spec.opaque:
                note = 'opaque argument `%s` of `%s`' % (txt, n.func.attr)
                if note not in self.notes:
                    self.notes.append(note)
                continue
            v, t = self.value(a, env)
            args.append(v)
            types.append(t)
        for k in n.keywords:
            if k.arg is None and 'kwargs' not in self.spec.opaque:
                raise Untranslatable('**%s' % ast.unparse(k.value))
        self.op(n.func.attr, types, 'σ')
        return '(ops.%s self%s)' % (n.func.attr, ''.join(' ' + a for a in args))

    def block(self, stmts, env, ind):
        pad = '  ' * ind
        if not stmts:
            return pad + 'self'
        s, rest = stmts[0], stmts[1:]
        if isinstance(s, ast.Expr) and isinstance(s.value, ast.Constant):
            return self.block(rest, env, ind)
        if isinstance(s, ast.Expr) and isinstance(s.value, ast.Call) and ast.unparse(s.value.func).startswith('logger.'):
            return self.block(rest, env, ind)
        if isinstance(s, ast.Assign) and len(s.targets) == 1 and isinstance(s.targets[0], ast.Name):
            v, t = self.value(s.value, env)
            return '%slet %s : %s := %s\n' % (pad, s.targets[0].id, LEAN_T[t], v) + self.block(rest, dict(env, **{s.targets[0].id: t}), ind)
        if isinstance(s, ast.Expr) and isinstance(s.value, ast.Call):
            return '%slet self : σ := %s\n' % (pad, self.call(s.value, env)) + self.block(rest, env, ind)
        if isinstance(s, ast.If) and not s.orelse:
            c = self.cond(s.test, env)
            if len(s.body) == 1 and isinstance(s.body[0], ast.Return) and s.body[0].value is None:
                return '%sif %s then self else\n' % (pad, c) + self.block(rest, env, ind)
            if len(s.body) == 1 and isinstance(s.body[0], ast.Expr) and isinstance(s.body[0].value, ast.Call):
                return '%slet self : σ := if %s then %s else self\n' % (pad, c, self.call(s.body[0].value, env)) + self.block(rest, env, ind)
        raise Untranslatable('statement %s' % ast.unparse(s)[:80])

    def function(self):
        sp = self.spec
        fn = ast.parse(textwrap.dedent(inspect.getsource(sp.obj()))).body[0]
        body = self.block(list(fn.body), {}, 1)
        cap = sp.lean[0].upper() + sp.lean[1:]
        fields = []
        for name, argt, res in self.ops:
            fields.append('  %s : σ → %s%s' % (name, ''.join(LEAN_T[t] + ' → ' for t in argt), 'Int' if res == 'I' else 'σ'))
        struct = '/-- one function per method `%s` calls, with the arguments it hands them -/\nstructure %sOps (σ G : Type) where\n%s\n' % (sp.qual, cap, '\n'.join(fields))
        params = ' '.join('(%s : %s)' % (k, LEAN_T[sp.options[k]]) for k in sp.options if k in self.used)
        doc = '/-- `%s.%s`%s%s -/\n' % (sp.module, sp.qual, (' — ' + sp.note) if sp.note else '', ''.join('; ' + x for x in self.notes))
        return struct + '\n' + doc + 'def %s {σ G : Type} (ops : %sOps σ G) %s (self : σ) : σ :=\n%s\n' % (sp.lean, cap, params, body)


SPECS = [
    SkelSpec('ixpeobssim.evt.event', 'xEventList._finalize', 'finalize', dict(charging='B', deadtime='I', gti_list='G'), opaque=('irf_set', 'kwargs'),
             note='C04 / C05: the order and the guards of the steps that close an event list (fiducial cut, time sort, charging, dead-time veto, livetime, trigger '
                  'identifiers) and the arguments each step receives'),
]


def lean_file(golden):
    out = ['/-! Generated by translator/skeltrans.py from the /repo working tree — do not edit.',
           'Orchestration methods as compositions of the methods they call, over an abstract state. -/', 'set_option linter.unusedVariables false', '',
           'namespace Gen.Skel', '']
    status = {}
    for sp in SPECS:
        key = 'skel:' + sp.lean
        try:
            tr = Skel(sp)
            txt = tr.function()
            status[sp.lean] = dict(tie='translated', differs_from_golden=golden.get(key) not in (None, txt), notes=tr.notes, qual=sp.qual, module=sp.module)
            golden[key] = txt
        except Exception as e:
            txt = golden.get(key)
            if txt is None:
                raise
            status[sp.lean] = dict(tie='correspondence-only', reason='%s: %s' % (type(e).__name__, e), qual=sp.qual, module=sp.module)
        out.append(txt)
    out += ['end Gen.Skel', '']
    return '\n'.join(out), status


if __name__ == '__main__':
    import sys
    g = {}
    txt, st = lean_file(g)
    print(txt)
    print(st, file=sys.stderr)
