"""String-code translator (T-tie for C12): the response-file *name composition* of ixpeobssim/irf/caldb.py -> Lean `do`-notation on strings as
lists of character codes, statement by statement (`Gen/IrfNameGen.lean`).

The kernel-decided theorems of `Props/C12.lean` (no orphans, flavour-faithful, injective, …) are stated about the generated `irf_file_name`
and evaluate it on the whole generated CALDB listing, so an edit of the composition (a re-ordered hook, a changed suffix, a new special
case) is seen by the kernel and not only by the exhaustive correspondence.

Subset (anything else raises Untranslatable → the committed golden text is used and the tie is reported as `correspondence-only`):
  parameters   str (List Nat), int (Nat), bool (Bool), as declared in the spec
  statements   docstrings, `logger.*` calls (skipped), `x = e`, `if / else` (conditions below), `raise RuntimeError(...)` -> `throw k`
               (k = index of the raise statement in source order), `for name in <CONSTANT TUPLE>: x = e`, `return e`
  expressions  string constants, names, `'fmt' % e` / `'fmt' % (e, …)` with the directives %s %d %03d, `s.replace(a, b)`, `s.strip('_')`,
               `s.endswith(c)`, `a in (…)` / `a not in CONST`, `a == 'const'`, `n >= k`, `not e`, bare booleans, calls of other generated functions,
               module constants (tuples of strings) resolved from the imported module
"""
import ast
import inspect
import importlib
import textwrap
import re

from py2lean import Untranslatable


def lstr(x):
    return '[%s]' % ', '.join(str(ord(c)) for c in x)


class StrSpec:
    def __init__(self, module, qual, lean, params, ret, note=''):
        self.module, self.qual, self.lean = module, qual, lean
        self.params = list(params)     # [(name, 'S' | 'N' | 'B')]
        self.ret = ret                 # 'S' (may raise -> Except Nat (List Nat)) or 'B' (pure Bool)
        self.note = note

    def obj(self):
        o = importlib.import_module(self.module)
        for part in self.qual.split('.'):
            o = getattr(o, part)
        return o


LT = {'S': 'List Nat', 'N': 'Nat', 'B': 'Bool', 'LS': 'List (List Nat)'}


class StrTr:
    def __init__(self, spec, registry):
        self.spec, self.registry = spec, registry
        self.mod = importlib.import_module(spec.module)
        self.nraise = 0
        self.raises = []

    def modconst(self, name):
        if not hasattr(self.mod, name):
            raise Untranslatable('unknown name %s' % name)
        v = getattr(self.mod, name)
        if isinstance(v, (tuple, list)) and all(isinstance(x, str) for x in v):
            return '([%s] : List (List Nat))' % ', '.join(lstr(x) for x in v), 'LS'
        if isinstance(v, str):
            return '(%s : List Nat)' % lstr(v), 'S'
        raise Untranslatable('module constant %s of type %s' % (name, type(v).__name__))

    def fmt(self, f, args, env):
        """'…%s…%03d…' % args -> concatenation"""
        parts, pos, k = [], 0, 0
        for m in re.finditer(r'%(0(\d)d|d|s|%)', f):
            if m.start() > pos:
                parts.append('(%s : List Nat)' % lstr(f[pos:m.start()]))
            pos = m.end()
            d = m.group(1)
            if d == '%':
                parts.append('(%s : List Nat)' % lstr('%'))
                continue
            if k >= len(args):
                raise Untranslatable('format arguments')
            a, t = self.expr(args[k], env)
            k += 1
            if d == 's' and t == 'S':
                parts.append(a)
            elif d == 'd' and t == 'N':
                parts.append('(Str.dec %s)' % a)
            elif d.startswith('0') and t == 'N':
                parts.append('(Str.decPad %s %s)' % (m.group(2), a))
            else:
                raise Untranslatable('directive %%%s with an argument of type %s' % (d, t))
        if pos < len(f):
            parts.append('(%s : List Nat)' % lstr(f[pos:]))
        if k != len(args):
            raise Untranslatable('format arguments')
        if '%' in re.sub(r'%(0\dd|d|s|%)', '', f):
            raise Untranslatable('format directive in %r' % f)
        return '(%s)' % ' ++ '.join(parts) if parts else '([] : List Nat)', 'S'

    def expr(self, n, env):
        if isinstance(n, ast.Constant):
            if isinstance(n.value, bool):
                return ('true' if n.value else 'false'), 'B'
            if isinstance(n.value, str):
                return '(%s : List Nat)' % lstr(n.value), 'S'
            if isinstance(n.value, int):
                return '(%d : Nat)' % n.value, 'N'
            raise Untranslatable('constant %r' % (n.value,))
        if isinstance(n, ast.Name):
            if n.id in env:
                return n.id, env[n.id]
            return self.modconst(n.id)
        if isinstance(n, ast.Tuple) and all(isinstance(e, ast.Constant) and isinstance(e.value, str) for e in n.elts):
            return '([%s] : List (List Nat))' % ', '.join(lstr(e.value) for e in n.elts), 'LS'
        if isinstance(n, ast.BinOp) and isinstance(n.op, ast.Mod) and isinstance(n.left, ast.Constant) and isinstance(n.left.value, str):
            args = list(n.right.elts) if isinstance(n.right, ast.Tuple) else [n.right]
            return self.fmt(n.left.value, args, env)
        if isinstance(n, ast.UnaryOp) and isinstance(n.op, ast.Not):
            a, t = self.expr(n.operand, env)
            if t != 'B':
                raise Untranslatable('not on %s' % t)
            return '(!%s)' % a, 'B'
        if isinstance(n, ast.Compare) and len(n.ops) == 1:
            a, ta = self.expr(n.left, env)
            b, tb = self.expr(n.comparators[0], env)
            op = n.ops[0]
            if isinstance(op, (ast.In, ast.NotIn)) and (ta, tb) == ('S', 'LS'):
                r = '(%s.contains %s)' % (b, a)
                return (r if isinstance(op, ast.In) else '(!%s)' % r), 'B'
            if isinstance(op, (ast.Eq, ast.NotEq)) and ta == tb and ta in ('S', 'N'):
                r = '(%s == %s)' % (a, b)
                return (r if isinstance(op, ast.Eq) else '(!%s)' % r), 'B'
            if (ta, tb) == ('N', 'N') and type(op) in (ast.GtE, ast.Gt, ast.Lt, ast.LtE):
                sym = {ast.GtE: '≥', ast.Gt: '>', ast.Lt: '<', ast.LtE: '≤'}[type(op)]
                return 'decide (%s %s %s)' % (a, sym, b), 'B'
            raise Untranslatable('comparison %s' % ast.unparse(n))
        if isinstance(n, ast.Call):
            f = n.func
            if isinstance(f, ast.Attribute) and not n.keywords:
                s, ts = self.expr(f.value, env)
                args = [self.expr(a, env) for a in n.args]
                if ts == 'S' and f.attr == 'replace' and [t for _, t in args] == ['S', 'S']:
                    return '(Str.replace %s %s %s)' % (s, args[0][0], args[1][0]), 'S'
                if ts == 'S' and f.attr == 'strip' and len(n.args) == 1 and isinstance(n.args[0], ast.Constant) and n.args[0].value == '_':
                    return '(Str.stripUnderscore %s)' % s, 'S'
                if ts == 'S' and f.attr == 'endswith' and [t for _, t in args] == ['S']:
                    return '(Str.endswith %s %s)' % (s, args[0][0]), 'B'
            if isinstance(f, ast.Name) and f.id in self.registry and not n.keywords:
                sp = self.registry[f.id]
                args = [self.expr(a, env) for a in n.args]
                if [t for _, t in args] != [t for _, t in sp.params] or sp.ret != 'B':
                    raise Untranslatable('call of %s' % f.id)
                return '(%s %s)' % (sp.lean, ' '.join(a for a, _ in args)), 'B'
        raise Untranslatable('expression %s' % ast.unparse(n)[:80])

    def block(self, stmts, env, ind, mut):
        """lines of a `do` block; `mut` = names already declared `let mut`"""
        pad = '  ' * ind
        out = []
        for s in stmts:
            if isinstance(s, ast.Expr) and isinstance(s.value, ast.Constant):
                continue
            if isinstance(s, ast.Expr) and isinstance(s.value, ast.Call) and ast.unparse(s.value.func).startswith('logger.'):
                continue
            if isinstance(s, ast.Assign) and len(s.targets) == 1 and isinstance(s.targets[0], ast.Name):
                x = s.targets[0].id
                v, t = self.expr(s.value, env)
                if x in mut:
                    if env[x] != t:
                        raise Untranslatable('assignment changes the type of %s' % x)
                    out.append('%s%s := %s' % (pad, x, v))
                else:
                    out.append('%slet mut %s : %s := %s' % (pad, x, LT[t], v))
                    mut.add(x)
                    env[x] = t
                continue
            if isinstance(s, ast.Raise):
                out.append('%sthrow %d' % (pad, self.nraise))
                self.raises.append(ast.unparse(s)[:160])
                self.nraise += 1
                continue
            if isinstance(s, ast.Return) and s.value is not None:
                v, t = self.expr(s.value, env)
                if t != self.spec.ret:
                    raise Untranslatable('return of type %s' % t)
                out.append('%sreturn %s' % (pad, v))
                continue
            if isinstance(s, ast.If):
                c, t = self.expr(s.test, env)
                if t != 'B':
                    raise Untranslatable('condition of type %s' % t)
                out.append('%sif %s then' % (pad, c))
                # variables first assigned inside a branch must not escape it: Lean scopes them the same way; a later read fails to compile
                out += self.block(s.body, dict(env), ind + 1, set(mut)) or ['%s  pure ()' % pad]
                if s.orelse:
                    out.append('%selse' % pad)
                    out += self.block(s.orelse, dict(env), ind + 1, set(mut)) or ['%s  pure ()' % pad]
                continue
            if isinstance(s, ast.For) and not s.orelse and isinstance(s.target, ast.Name):
                it, t = self.expr(s.iter, env)
                if t != 'LS':
                    raise Untranslatable('iteration over %s' % t)
                out.append('%sfor %s in %s do' % (pad, s.target.id, it))
                out += self.block(s.body, dict(env, **{s.target.id: 'S'}), ind + 1, set(mut))
                continue
            raise Untranslatable('statement %s' % ast.unparse(s)[:80])
        return out

    def function(self):
        sp = self.spec
        fn = ast.parse(textwrap.dedent(inspect.getsource(sp.obj()))).body[0]
        pyparams = [a.arg for a in fn.args.args]
        if pyparams != [n_ for n_, _ in sp.params]:
            raise Untranslatable('signature changed: %s' % pyparams)
        env = {n_: t for n_, t in sp.params}
        # parameters that the body assigns become `let mut` shadows
        assigned = {t.id for n_ in ast.walk(fn) if isinstance(n_, ast.Assign) for t in n_.targets if isinstance(t, ast.Name)}
        pre, mut = [], set()
        for n_, t in sp.params:
            if n_ in assigned:
                pre.append('  let mut %s : %s := %s' % (n_, LT[t], n_))
                mut.add(n_)
        lines = pre + self.block(list(fn.body), env, 1, mut)
        sig = ' '.join('(%s : %s)' % (n_, LT[t]) for n_, t in sp.params)
        doc = '/-- `%s.%s`%s%s -/\n' % (sp.module, sp.qual, (' — ' + sp.note) if sp.note else '',
                                      ''.join('; throw %d = `%s`' % (i, r.replace('/-', '').replace('-/', '')) for i, r in enumerate(self.raises)))
        if sp.ret == 'B':
            return doc + 'def %s %s : Bool := Id.run do\n%s\n' % (sp.lean, sig, '\n'.join(lines))
        return doc + 'def %s %s : Except Nat (List Nat) := do\n%s\n' % (sp.lean, sig, '\n'.join(lines))


SPECS = [
    StrSpec('ixpeobssim.irf.caldb', '_supports_simple_weighting', 'supports_simple_weighting', [('intent', 'S')], 'B'),
    StrSpec('ixpeobssim.irf.caldb', 'irf_file_name', 'irf_file_name',
            [('base', 'S'), ('du_id', 'N'), ('irf_type', 'S'), ('intent', 'S'), ('version', 'N'), ('simple_weighting', 'B'), ('gray_filter', 'B')], 'S',
            note='C12: the name of the response file of a configuration; the module constants are inlined with the values found in the imported module'),
]


def lean_file(golden):
    out = ['import IxpeVerif.Model.IrfName', '/-! Generated by translator/strtrans.py from the /repo working tree — do not edit.',
           'The name composition of irf/caldb.py, statement by statement, on strings as lists of character codes (helpers: Model/IrfName.lean, `Str.*`). -/',
           'set_option linter.unusedVariables false', 'namespace Gen.Str', '']
    status = {}
    registry = {}
    for sp in SPECS:
        key = 'str:' + sp.lean
        try:
            tr = StrTr(sp, registry)
            txt = tr.function()
            status[sp.lean] = dict(tie='translated', differs_from_golden=golden.get(key) not in (None, txt), notes=tr.raises, qual=sp.qual, module=sp.module)
            golden[key] = txt
        except Exception as e:
            txt = golden.get(key)
            if txt is None:
                raise
            status[sp.lean] = dict(tie='correspondence-only', reason='%s: %s' % (type(e).__name__, e), qual=sp.qual, module=sp.module)
        registry[sp.qual] = sp
        out.append(txt)
    out += ['end Gen.Str', '']
    return '\n'.join(out), status


if __name__ == '__main__':
    import sys
    txt, st = lean_file({})
    print(txt)
    print(st, file=sys.stderr)
