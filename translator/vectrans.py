"""Translator of *vectorised* numpy code on parallel event arrays (T-tie of the event-list layer of `xStokesAnalysis`, evt/kislat2015.py; C02, C08, C13):
the constructor (filters, weights, acceptance correction, division by the modulation factor), the masked reductions (`_energy_mask`,
`_weighted_average`, `_average_energy`, `_effective_mu`, `_sum_stokes_parameters`, `W2`) and the body of the loop of `polarization_table`
(the order in which the quantities are put into the row, next to the list of column names).

Arrays are lists (`List α`, `List Bool`); the object is a structure with one field per `self._x` assigned in the constructor. Reading:

  numpy.ones(a.shape, dtype=bool) / numpy.full(a.shape, c)     Vec.trues a.length / Vec.full a.length c
  numpy.isnan(a)                                               a.map isnan            (`isnan` is a parameter: ℝ has no NaN, the floats do)
  numpy.logical_and / logical_or / logical_not                 Vec.vand / vor / vnot
  a >= c, a <= c, a > c (array against scalar)                 a.map fun x => decide (…)
  m.sum() (a mask), numpy.count_nonzero(m)                     Vec.count m (ℕ) / Vec.countR m (the same as a real)
  a[m]                                                         Vec.sel a m
  a * b, a / b, a ** 2.                                        Vec.vmul / vdiv / vsq
  numpy.sum(a)                                                 Vec.vsum a
  f(a) with f a response passed in (modf, aeff)                a.map f
  a.copy()                                                     a (a new array)
  x op= e (in place)                                           a new value for *every name bound to that array*

The last line is the point of the alias bookkeeping: every name (local or attribute) is bound to a cell; `y = x` binds `y` to the cell of `x`,
fancy indexing / arithmetic / a numpy call / `.copy()` create a cell.  An in-place operation updates the cell, i.e. all the names bound to it; an
in-place operation on a cell that came in through a parameter (the caller's array) is refused (Untranslatable: "in-place operation on an array of
the caller") — the C02-m6 / C06-m5 family (a copy dropped) therefore leaves the subset or changes the generated definition of `_w`.

Statements whose only effect is logging, and assignments read by nothing but logging, are skipped and recorded.
"""
import ast
import inspect
import importlib
import textwrap

from py2lean import Untranslatable

MODULE = 'ixpeobssim.evt.kislat2015'
CLASS = 'xStokesAnalysis'
LT = {'V': 'List α', 'VB': 'List Bool', 'R': 'α', 'N': 'Nat', 'B': 'Bool', 'OV': 'Option (List α)', 'F': 'α → α'}
# signature of the constructor: parameter -> type
INIT_PARAMS = [('q', 'V'), ('u', 'V'), ('energy', 'V'), ('modf', 'F'), ('aeff', 'F'), ('livetime', 'R'), ('weights', 'OV'), ('acceptcorr', 'B')]
METHODS = {            # name -> (lean name, [(param, type)], return type)
    '_energy_mask': ('energy_mask', [('emin', 'R'), ('emax', 'R')], 'VB'),
    '_weighted_average': ('weighted_average', [('values', 'V'), ('mask', 'VB')], 'R'),
    '_average_energy': ('average_energy', [('mask', 'VB')], 'R'),
    '_effective_mu': ('effective_mu', [('mask', 'VB')], 'R'),
    '_sum_stokes_parameters': ('sum_stokes_parameters', [('mask', 'VB')], ('R', 'R', 'R')),
    'W2': ('w2', [('mask', 'VB')], 'R'),
}
# the static per-bin functions already generated in Gen/Formulas.lean: python name -> (lean, parameters with defaults, returned names)
STATIC = {
    'calculate_stokes_errors': ('Gen.calculate_stokes_errors', [('I', None), ('Q', None), ('U', None), ('mu', None), ('W2', None)],
                                ['QN', 'UN', 'dI', 'dQ', 'dU', 'dQN', 'dUN', 'cov', 'pval', 'conf', 'sig'], {'sig'}),
    # `counts` comes from numpy.count_nonzero, a Python number: the isinstance(counts, numbers.Number) branch is the one taken (checked in `call`)
    'calculate_n_eff': ('Gen.calculate_n_eff_scalar', [('counts', None), ('I', None), ('W2', None)], ['n_eff', 'frac_w'], set()),
    'calculate_mdp99': ('Gen.calculate_mdp99', [('mu', None), ('I', None), ('W2', None), ('clip', 'true')], None, set()),
    'calculate_polarization': ('Gen.calculate_polarization', [('I', None), ('Q', None), ('U', None), ('mu', None), ('W2', 'NotNone'), ('degrees', 'false')],
                               ['pd', 'pd_err', 'pa', 'pa_err'], set()),
}


def lt(t):
    if isinstance(t, tuple):
        return ' × '.join(LT[x] for x in t)
    return LT[t]


def is_logging(s):
    return isinstance(s, ast.Expr) and isinstance(s.value, ast.Call) and ast.unparse(s.value.func).startswith('logger.')


def is_doc(s):
    return isinstance(s, ast.Expr) and isinstance(s.value, ast.Constant)


def reads_outside_logging(stmts):
    out = set()
    for s in stmts:
        for sub in ast.walk(s):
            if isinstance(sub, ast.stmt) and is_logging(sub):
                continue
        # walk, but do not descend into logging statements
        stack = [s]
        while stack:
            n = stack.pop()
            if isinstance(n, ast.stmt) and is_logging(n):
                continue
            if isinstance(n, ast.Name) and isinstance(n.ctx, ast.Load):
                out.add(n.id)
            if isinstance(n, ast.Attribute) and isinstance(n.ctx, ast.Load) and ast.unparse(n).startswith('self._'):
                out.add(ast.unparse(n))
            stack.extend(ast.iter_child_nodes(n))
    return out


class Cell:
    def __init__(self, ident, typ, owned):
        self.ident, self.typ, self.owned = ident, typ, owned


class Ctx:
    """one function body"""

    def __init__(self, consts, state=None, in_init=False):
        self.consts = consts          # module-level numeric constants
        self.env = {}                 # python name / 'self._x' -> Cell
        self.state = state            # {'_x': type} when translating a method (self._x ↦ st.x)
        self.in_init = in_init
        self.lines = []
        self.notes = []
        self.fields = []              # (field, type) in order of first assignment (constructor)
        self.used = set()
        self.abstract = []            # names bound to nothing the generated code can compute (recorded)
        self.pynumbers = set()        # names bound to a Python number (numpy.count_nonzero)

    def note(self, s):
        if s not in self.notes:
            self.notes.append(s)

    def emit(self, s):
        self.lines.append('  ' + s)

    # ------------------------------------------------------------------ expressions
    def name_of(self, node):
        if isinstance(node, ast.Name):
            return node.id
        if isinstance(node, ast.Attribute) and isinstance(node.value, ast.Name) and node.value.id == 'self':
            return 'self.' + node.attr
        return None

    def ex(self, node):
        """-> (lean text, type)"""
        nm = self.name_of(node)
        if nm is not None:
            if nm in self.env:
                c = self.env[nm]
                return c.ident, c.typ
            if nm.startswith('self._') and self.state is not None and nm[5:] in self.state:
                return 'st.%s' % nm[6:], self.state[nm[5:]]
            if nm in self.consts:
                return self.real(self.consts[nm]), 'R'
            raise Untranslatable('unknown name %s' % nm)
        if isinstance(node, ast.Constant):
            v = node.value
            if isinstance(v, bool):
                return ('true' if v else 'false'), 'B'
            if isinstance(v, (int, float)):
                return self.real(v), 'R'
            raise Untranslatable('constant %r' % (v,))
        if isinstance(node, ast.Subscript):
            a, ta = self.ex(node.value)
            m, tm = self.ex(node.slice)
            if ta in ('V', 'VB') and tm == 'VB':
                return '(Vec.sel %s %s)' % (a, m), ta
            raise Untranslatable('subscript %s' % ast.unparse(node))
        if isinstance(node, ast.BinOp):
            a, ta = self.ex(node.left)
            if isinstance(node.op, ast.Pow):
                if isinstance(node.right, ast.Constant) and node.right.value == 2.:
                    if ta == 'V':
                        return '(Vec.vsq %s)' % a, 'V'
                    if ta == 'R':
                        return '(%s * %s)' % (a, a), 'R'
                raise Untranslatable('power %s' % ast.unparse(node))
            b, tb = self.ex(node.right)
            op = {ast.Mult: ('*', 'vmul'), ast.Div: ('/', 'vdiv'), ast.Add: ('+', 'vadd'), ast.Sub: ('-', 'vsub')}.get(type(node.op))
            if op is None:
                raise Untranslatable('operator %s' % ast.unparse(node))
            if ta == tb == 'V':
                return '(Vec.%s %s %s)' % (op[1], a, b), 'V'
            if ta == tb == 'R':
                return '(%s %s %s)' % (a, op[0], b), 'R'
            raise Untranslatable('operands of %s' % ast.unparse(node))
        if isinstance(node, ast.Compare) and len(node.ops) == 1:
            a, ta = self.ex(node.left)
            b, tb = self.ex(node.comparators[0])
            o = node.ops[0]
            rel = {ast.Gt: lambda x, y: '%s < %s' % (y, x), ast.GtE: lambda x, y: '%s ≤ %s' % (y, x), ast.Lt: lambda x, y: '%s < %s' % (x, y),
                   ast.LtE: lambda x, y: '%s ≤ %s' % (x, y)}.get(type(o))
            if rel is None:
                raise Untranslatable('comparison %s' % ast.unparse(node))
            if ta == 'V' and tb == 'R':
                return '(%s.map fun x => decide (%s))' % (a, rel('x', b)), 'VB'
            if ta == 'N' and isinstance(node.comparators[0], ast.Constant) and node.comparators[0].value == 0 and isinstance(o, ast.Gt):
                return 'decide (0 < %s)' % a, 'B'
            raise Untranslatable('comparison %s' % ast.unparse(node))
        if isinstance(node, ast.Tuple):
            parts = [self.ex(e) for e in node.elts]
            return '(' + ', '.join(p[0] for p in parts) + ')', tuple(p[1] for p in parts)
        if isinstance(node, ast.Call):
            return self.call(node)
        raise Untranslatable('expression %s' % ast.unparse(node))

    def real(self, v):
        r = repr(float(v))
        if 'e' in r or 'inf' in r or 'nan' in r:
            raise Untranslatable('constant %r' % v)
        return '(%s : α)' % r

    def shape_len(self, node):
        """`a.shape` -> `a.length`"""
        if isinstance(node, ast.Attribute) and node.attr == 'shape':
            a, ta = self.ex(node.value)
            if ta in ('V', 'VB'):
                return '%s.length' % a
        raise Untranslatable('shape argument %s' % ast.unparse(node))

    def call(self, node):
        f = ast.unparse(node.func)
        kw = {k.arg: k.value for k in node.keywords}
        if f == 'numpy.ones' and len(node.args) == 1 and list(kw) == ['dtype'] and ast.unparse(kw['dtype']) == 'bool':
            return '(Vec.trues %s)' % self.shape_len(node.args[0]), 'VB'
        if f == 'numpy.full' and len(node.args) == 2 and not kw:
            c, tc = self.ex(node.args[1])
            if tc != 'R':
                raise Untranslatable('numpy.full value')
            return '(Vec.full %s %s)' % (self.shape_len(node.args[0]), c), 'V'
        if f == 'numpy.isnan' and len(node.args) == 1:
            a, ta = self.ex(node.args[0])
            if ta != 'V':
                raise Untranslatable('isnan of a non-array')
            self.used.add('isnan')
            return '(%s.map isnan)' % a, 'VB'
        if f in ('numpy.logical_and', 'numpy.logical_or') and len(node.args) == 2 and not kw:
            a, ta = self.ex(node.args[0])
            b, tb = self.ex(node.args[1])
            if ta == tb == 'VB':
                return '(Vec.%s %s %s)' % ('vand' if f.endswith('and') else 'vor', a, b), 'VB'
            raise Untranslatable('%s of non-masks' % f)
        if f == 'numpy.logical_not' and len(node.args) == 1:
            a, ta = self.ex(node.args[0])
            if ta == 'VB':
                return '(Vec.vnot %s)' % a, 'VB'
            raise Untranslatable('logical_not of a non-mask')
        if f == 'numpy.sum' and len(node.args) == 1 and not kw:
            a, ta = self.ex(node.args[0])
            if ta == 'V':
                return '(Vec.vsum %s)' % a, 'R'
            raise Untranslatable('numpy.sum of a non-array')
        if f == 'numpy.count_nonzero' and len(node.args) == 1 and not kw:
            a, ta = self.ex(node.args[0])
            if ta == 'VB':
                return '(Vec.countR %s)' % a, 'R'
            raise Untranslatable('count_nonzero of a non-mask')
        if isinstance(node.func, ast.Attribute) and node.func.attr == 'sum' and not node.args and not kw:
            a, ta = self.ex(node.func.value)
            if ta == 'VB':
                return '(Vec.count %s)' % a, 'N'
            raise Untranslatable('.sum() of a non-mask')
        if isinstance(node.func, ast.Attribute) and node.func.attr == 'copy' and not node.args and not kw:
            return self.ex(node.func.value)
        if isinstance(node.func, ast.Name) and node.func.id in self.env and self.env[node.func.id].typ == 'F' and len(node.args) == 1 and not kw:
            a, ta = self.ex(node.args[0])
            if ta == 'V':
                return '(%s.map %s)' % (a, node.func.id), 'V'
            raise Untranslatable('response evaluated on a non-array')
        if f.startswith('self.') and f[5:] in METHODS and self.state is not None:
            lean, params, ret = METHODS[f[5:]]
            if kw or len(node.args) != len(params):
                raise Untranslatable('call %s' % ast.unparse(node))
            args = []
            for a_, (pn, pt) in zip(node.args, params):
                x, tx = self.ex(a_)
                if tx != pt:
                    raise Untranslatable('argument %s of %s: %s, expected %s' % (pn, f, tx, pt))
                args.append(x)
            return '(%s st %s)' % (lean, ' '.join(args)), ret
        if f.startswith('self.') and f[5:] in STATIC:
            lean, params, rets, dropped = STATIC[f[5:]]
            bound = {}
            if len(node.args) > len(params):
                raise Untranslatable('call %s' % ast.unparse(node))
            for a_, (pn, _) in zip(node.args, params):
                bound[pn] = a_
            for k_, v_ in kw.items():
                if k_ in bound or k_ not in [p[0] for p in params]:
                    raise Untranslatable('call %s' % ast.unparse(node))
                bound[k_] = v_
            args = []
            for pn, default in params:
                if pn in bound:
                    x, tx = self.ex(bound[pn])
                    if tx not in ('R', 'B'):
                        raise Untranslatable('argument %s of %s' % (pn, f))
                    args.append(x)
                elif default == 'NotNone' or default is None:
                    raise Untranslatable('argument %s of %s missing' % (pn, f))
                else:
                    args.append(default)
            if f[5:] == 'calculate_n_eff':
                cnt = bound.get('counts')
                if not (isinstance(cnt, ast.Name) and cnt.id in self.pynumbers):
                    raise Untranslatable('calculate_n_eff: counts is not known to be a Python number')
            n = 1 if rets is None else len(rets) - len(dropped)
            return '(%s %s)' % (lean, ' '.join(args)), ('R' if n == 1 else ('CALL', f[5:]))
        raise Untranslatable('call %s' % ast.unparse(node))

    # ------------------------------------------------------------------ statements
    def fresh(self, node):
        """does the expression create a new array (as opposed to naming an existing one)?"""
        return self.name_of(node) is None

    def ident_for(self, nm):
        return nm[6:] + '_' if nm.startswith('self._') else nm

    def bind(self, nm, txt, typ, owned=True):
        ident = self.ident_for(nm)
        self.emit('let %s : %s := %s' % (ident, lt(typ), txt))
        self.env[nm] = Cell(ident, typ, owned)
        if nm.startswith('self._') and self.in_init and nm[6:] not in [f[0] for f in self.fields]:
            self.fields.append((nm[6:], typ))

    def assign(self, s, cond=None):
        if len(s.targets) != 1:
            raise Untranslatable('multiple targets')
        tgt = s.targets[0]
        nm = self.name_of(tgt)
        if nm is None:
            raise Untranslatable('assignment target %s' % ast.unparse(tgt))
        if cond is not None:
            raise Untranslatable('assignment under a condition: %s' % ast.unparse(s))
        src = self.name_of(s.value)
        if src is not None and src in self.env and self.env[src].typ in ('V', 'VB'):
            # a second name for the same array
            self.env[nm] = self.env[src]
            if nm.startswith('self._') and self.in_init and nm[6:] not in [f[0] for f in self.fields]:
                self.fields.append((nm[6:], self.env[src].typ))
            self.note('%s is another name for the array %s' % (nm, src))
            return
        txt, typ = self.ex(s.value)
        if isinstance(typ, tuple) and typ and typ[0] == 'CALL':
            raise Untranslatable('several values bound to one name')
        self.bind(nm, txt, typ)
        self.pynumbers.discard(nm)
        if isinstance(s.value, ast.Call) and ast.unparse(s.value.func) == 'numpy.count_nonzero':
            self.pynumbers.add(nm)

    def augassign(self, s, cond=None):
        nm = self.name_of(s.target)
        if nm is None or nm not in self.env:
            raise Untranslatable('in-place target %s' % ast.unparse(s.target))
        c = self.env[nm]
        if not c.owned:
            raise Untranslatable('in-place operation on an array of the caller: %s' % ast.unparse(s))
        v, tv = self.ex(s.value)
        if c.typ == 'VB' and tv == 'VB' and isinstance(s.op, ast.Mult):
            new = '(Vec.vand %s %s)' % (c.ident, v)
        elif c.typ == 'V' and tv == 'V' and isinstance(s.op, (ast.Mult, ast.Div)):
            new = '(Vec.%s %s %s)' % ('vmul' if isinstance(s.op, ast.Mult) else 'vdiv', c.ident, v)
        else:
            raise Untranslatable('in-place %s' % ast.unparse(s))
        if cond is not None:
            new = 'if %s then %s else %s' % (cond, new, c.ident)
        self.emit('let %s : %s := %s' % (c.ident, lt(c.typ), new))      # every name bound to the cell reads the new value

    def if_none(self, s):
        """if x is None: x = A else: x = B  ->  match on the optional array"""
        t = s.test
        if not (isinstance(t, ast.Compare) and isinstance(t.ops[0], ast.Is) and isinstance(t.comparators[0], ast.Constant) and t.comparators[0].value is None):
            return False
        nm = self.name_of(t.left)
        if nm is None or nm not in self.env or self.env[nm].typ != 'OV':
            return False
        if not (len(s.body) == 1 and len(s.orelse) == 1 and all(isinstance(b, ast.Assign) and self.name_of(b.targets[0]) == nm for b in (s.body[0], s.orelse[0]))):
            raise Untranslatable('shape of the `is None` branch')
        if not self.fresh(s.body[0].value):
            raise Untranslatable('default of %s is not a new array' % nm)
        a, ta = self.ex(s.body[0].value)
        # inside the else branch the name is the array itself (the caller's)
        saved = self.env[nm]
        self.env[nm] = Cell(nm, 'V', False)
        fresh_b = self.fresh(s.orelse[0].value)
        b, tb = self.ex(s.orelse[0].value)
        self.env[nm] = saved
        if ta != 'V' or tb != 'V':
            raise Untranslatable('types of the `is None` branches')
        ident = nm + '_'
        self.emit('let %s : List α := match %s with | none => %s | some %s => %s' % (ident, nm, a, nm, b))
        self.env[nm] = Cell(ident, 'V', fresh_b)
        if not fresh_b:
            self.note('%s stays the array of the caller when given' % nm)
        return True

    def if_stmt(self, s):
        if self.if_none(s):
            return
        if s.orelse:
            raise Untranslatable('else branch: %s' % ast.unparse(s.test))
        c, tc = self.ex(s.test)
        if tc != 'B':
            raise Untranslatable('condition %s' % ast.unparse(s.test))
        for b in s.body:
            if is_logging(b):
                self.note('logging skipped')
                continue
            if isinstance(b, ast.AugAssign):
                self.augassign(b, cond=c)
            elif isinstance(b, ast.Assign) and self.only_logging_reads(b):
                self.note('`%s` is read by logging only: skipped' % ast.unparse(b.targets[0]))
            else:
                raise Untranslatable('statement under a condition: %s' % ast.unparse(b))

    def only_logging_reads(self, s):
        names = set()
        for t in s.targets:
            for n in ast.walk(t):
                if isinstance(n, ast.Name):
                    names.add(n.id)
        return not (names & self.live)

    def body(self, stmts):
        self.live = reads_outside_logging(stmts)
        for s in stmts:
            if is_doc(s) or isinstance(s, ast.Pass):
                continue
            if is_logging(s):
                self.note('logging skipped')
                continue
            if isinstance(s, ast.Assign):
                tgt = s.targets[0]
                if isinstance(tgt, ast.Tuple):
                    self.unpack(s)
                else:
                    self.assign(s)
            elif isinstance(s, ast.AugAssign):
                self.augassign(s)
            elif isinstance(s, ast.If):
                self.if_stmt(s)
            elif isinstance(s, ast.Return):
                txt, typ = self.ex(s.value)
                self.ret = (txt, typ)
                return
            else:
                raise Untranslatable('statement %s' % type(s).__name__)

    def unpack(self, s):
        tgt = s.targets[0]
        names = [self.name_of(e) for e in tgt.elts]
        if any(n is None for n in names):
            raise Untranslatable('unpacking target')
        txt, typ = self.ex(s.value)
        if isinstance(typ, tuple) and typ and typ[0] == 'CALL':
            _, params, rets, dropped = STATIC[typ[1]]
            if len(names) != len(rets):
                raise Untranslatable('%s returns %d values, %d unpacked' % (typ[1], len(rets), len(names)))
            kept = [n for n, r in zip(names, rets) if r not in dropped]
            for n, r in zip(names, rets):
                if r in dropped:
                    self.abstract.append(n)
                    self.env[n] = Cell(n, 'R', True)
            self.emit('let (%s) := %s' % (', '.join(kept), txt))
            for n in kept:
                self.env[n] = Cell(n, 'R', True)
            return
        if isinstance(typ, tuple) and len(typ) == len(names):
            self.emit('let (%s) := %s' % (', '.join(names), txt))
            for n, t in zip(names, typ):
                self.env[n] = Cell(n, t, True)
            return
        raise Untranslatable('unpacking %s' % ast.unparse(s))


def _consts(mod):
    out = {}
    for k, v in vars(mod).items():
        if k.isupper() and isinstance(v, (int, float)) and not isinstance(v, bool):
            out[k] = v
    return out


def _func(cls, name):
    src = textwrap.dedent(inspect.getsource(getattr(cls, name)))
    return ast.parse(src).body[0]


def translate():
    mod = importlib.import_module(MODULE)
    cls = getattr(mod, CLASS)
    consts = _consts(mod)
    out, notes = [], {}
    # ---- the constructor
    fn = _func(cls, '__init__')
    sig = [a.arg for a in fn.args.args][1:]
    if sig != [p[0] for p in INIT_PARAMS]:
        raise Untranslatable('constructor signature %s' % sig)
    defaults = [ast.unparse(d) for d in fn.args.defaults]
    if defaults != ['None', 'True']:
        raise Untranslatable('constructor defaults %s' % defaults)
    c = Ctx(consts, in_init=True)
    for p, t in INIT_PARAMS:
        c.env[p] = Cell(p, t, False)
    c.body(fn.body)
    fields = c.fields
    state = {'_' + f: t for f, t in fields}
    out.append('structure State (α : Type) where')
    for f, t in fields:
        out.append('  %s : %s' % (f, lt(t)))
    out.append('')
    out.append('/-- `xStokesAnalysis.__init__` -/')
    out.append('def init {α : Type} [RealLike α] (isnan : α → Bool) %s : State α :=' % ' '.join('(%s : %s)' % (p, lt(t)) for p, t in INIT_PARAMS))
    out += c.lines
    out.append('  { %s }' % ', '.join('%s := %s' % (f, c.env['self._' + f].ident) for f, _ in fields))
    out.append('')
    notes['init'] = c.notes
    # ---- the reductions
    for py, (lean, params, ret) in METHODS.items():
        fn = _func(cls, py)
        sig = [a.arg for a in fn.args.args][1:]
        if sig != [p[0] for p in params] or fn.args.defaults:
            raise Untranslatable('%s signature %s' % (py, sig))
        m = Ctx(consts, state=state)
        for p, t in params:
            m.env[p] = Cell(p, t, False)
        m.body(fn.body)
        if not hasattr(m, 'ret'):
            raise Untranslatable('%s does not return' % py)
        if m.ret[1] != ret:
            raise Untranslatable('%s returns %s' % (py, m.ret[1]))
        out.append('/-- `xStokesAnalysis.%s` -/' % py)
        out.append('def %s {α : Type} [RealLike α] (st : State α) %s : %s :=' % (lean, ' '.join('(%s : %s)' % (p, lt(t)) for p, t in params), lt(ret)))
        out += m.lines
        out.append('  ' + m.ret[0])
        out.append('')
        notes[lean] = m.notes
    # ---- the row of polarization_table
    fn = _func(cls, 'polarization_table')
    sig = [a.arg for a in fn.args.args][1:]
    if sig != ['ebinning', 'degrees']:
        raise Untranslatable('polarization_table signature %s' % sig)
    col_names, loop = None, None
    for s in fn.body:
        if is_doc(s):
            continue
        if isinstance(s, ast.Assign) and ast.unparse(s.targets[0]) == 'col_names':
            col_names = ast.literal_eval(s.value)
        elif isinstance(s, ast.Assign) and ast.unparse(s.targets[0]) == 'table':
            if ast.unparse(s.value) != 'astropy.table.Table(names=col_names)':
                raise Untranslatable('table construction %s' % ast.unparse(s.value))
        elif isinstance(s, ast.For):
            if loop is not None:
                raise Untranslatable('two loops')
            loop = s
        elif isinstance(s, ast.Return):
            if ast.unparse(s.value) != 'table':
                raise Untranslatable('return value')
        else:
            raise Untranslatable('statement %s' % ast.unparse(s)[:60])
    if loop is None or col_names is None:
        raise Untranslatable('no loop / column names')
    if ast.unparse(loop.target) != '(emin, emax)' or ast.unparse(loop.iter) != 'pairwise(ebinning)':
        raise Untranslatable('loop header')
    body = list(loop.body)
    if ast.unparse(body[-1]) != 'table.add_row(row)' or not (isinstance(body[-2], ast.Assign) and ast.unparse(body[-2].targets[0]) == 'row'):
        raise Untranslatable('end of the loop body')
    t = Ctx(consts, state=state)
    t.env['emin'] = Cell('emin', 'R', False)
    t.env['emax'] = Cell('emax', 'R', False)
    t.env['degrees'] = Cell('degrees', 'B', False)
    t.body(body[:-2])
    row = body[-2].value
    if not isinstance(row, ast.Tuple) or len(row.elts) != len(col_names):
        raise Untranslatable('row has %d entries for %d columns' % (len(row.elts) if isinstance(row, ast.Tuple) else -1, len(col_names)))
    entries = []
    for e in row.elts:
        x, tx = t.ex(e)
        if tx != 'R':
            raise Untranslatable('row entry %s' % ast.unparse(e))
        entries.append(x)
    abstract = sorted(set(t.abstract))
    out.append('/-- the column names of `polarization_table`, in the order of the row -/')
    out.append('def table_columns : List String := [%s]' % ', '.join('"%s"' % n for n in col_names))
    out.append('')
    out.append('/-- the body of the loop of `xStokesAnalysis.polarization_table`: one row, in the order it is added to the table%s -/' %
               (' (%s: outside the generated subset, a parameter)' % ', '.join(abstract) if abstract else ''))
    out.append('def table_row {α : Type} [RealLike α] (st : State α) (emin emax : α) (degrees : Bool)%s : List α :=' % ''.join(' (%s : α)' % a for a in abstract))
    out += t.lines
    out.append('  [%s]' % ', '.join(entries))
    out.append('')
    notes['table_row'] = t.notes + ['%s abstract' % a for a in abstract]
    return '\n'.join(out), notes


NAMES = ['ana_init'] + ['ana_' + v[0] for v in METHODS.values()] + ['ana_table_row']


def lean_file(golden):
    out = ['import IxpeVerif.Model.Vec', 'import IxpeVerif.Gen.Formulas', '/-! Generated by translator/vectrans.py from the /repo working tree — do not edit. -/',
           'set_option linter.unusedVariables false', 'namespace Gen.Ana', '']
    status = {}
    key = 'ana:all'
    try:
        txt, notes = translate()
        for n in NAMES:
            status[n] = dict(tie='translated', differs_from_golden=golden.get(key) not in (None, txt), notes=notes.get(n[4:], []), qual='%s (vectorised)' % CLASS, module=MODULE)
        golden[key] = txt
    except Exception as e:
        txt = golden.get(key)
        if txt is None:
            raise
        for n in NAMES:
            status[n] = dict(tie='correspondence-only', reason='%s: %s' % (type(e).__name__, e), qual='%s (vectorised)' % CLASS, module=MODULE)
    out += [txt, 'end Gen.Ana', '']
    return '\n'.join(out), status


if __name__ == '__main__':
    import sys
    txt, st = lean_file({})
    print(txt)
    print(st, file=sys.stderr)
